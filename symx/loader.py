"""Load the repository's modules from the *current working tree* on every run.

symbolic mode: each of someip/{utils,header,config,sd,service}.py is read from
$VERIF_REPO (default /repo)/src, parsed with ast, lowered (C-boundary stand-ins,
see DESIGN.md 3.3) and executed as module someip.<name> of this process.  The
function bodies and line numbers are the repository's.

concrete mode: the same files are imported unmodified (real struct/bytes/enum).
"""
from __future__ import annotations

import ast
import hashlib
import importlib
import os
import struct as real_struct
import sys
import types

# pre-import the stdlib modules the repo imports so that they bind the real struct
import abc, asyncio, collections, dataclasses, enum, functools, ipaddress, itertools, logging, platform, random, socket, threading, typing, warnings  # noqa: E401,F401,E501

from . import symbytes
from .symbytes import PyStruct

NAMES = ["utils", "header", "config", "sd", "service"]


def repo_root():
    return os.environ.get("VERIF_REPO", "/repo")


def src_dir():
    return os.path.join(repo_root(), "src")


def source_digest():
    h = hashlib.sha256()
    for n in NAMES + ["__init__"]:
        with open(os.path.join(src_dir(), "someip", n + ".py"), "rb") as f:
            h.update(f.read())
    return h.hexdigest()[:16]


class StructModel(types.ModuleType):
    error = real_struct.error
    Struct = PyStruct

    @staticmethod
    def pack(fmt, *v):
        return PyStruct(fmt).pack(*v)

    @staticmethod
    def unpack(fmt, b):
        return PyStruct(fmt).unpack(b)

    @staticmethod
    def calcsize(fmt):
        return real_struct.calcsize(fmt)


class Lower(ast.NodeTransformer):
    """AST lowering (semantics-preserving for concrete values):
         b"..".join(x)   ->  sx_bjoin_(b"..", x)
         a in c / not in ->  sx_in_(a, c)          (equality scan for symbolic a)
         c[k]  (load)    ->  sx_getitem_(c, k)     (equality scan for symbolic int k on dicts)
         o.get(...)      ->  sx_get_(o, ...)       (same)
         bytes(...)      ->  sx_bytes_(...)        (keeps symbolic elements)
         int.from_bytes  ->  sx_int_from_bytes_    (arithmetic on symbolic bytes)
    """

    def __init__(self):
        self.count = 0

    def visit_Call(self, node):
        self.generic_visit(node)
        f = node.func
        if isinstance(f, ast.Attribute) and f.attr == "join" and isinstance(f.value, ast.Constant) and isinstance(f.value.value, bytes):
            self.count += 1
            return ast.copy_location(
                ast.Call(func=ast.Name(id="sx_bjoin_", ctx=ast.Load()), args=[f.value] + node.args, keywords=[]),
                node,
            )
        if isinstance(f, ast.Attribute) and f.attr == "from_bytes" and isinstance(f.value, ast.Name) and f.value.id == "int":
            return ast.copy_location(ast.Call(func=ast.Name(id="sx_int_from_bytes_", ctx=ast.Load()), args=node.args, keywords=node.keywords), node)
        if isinstance(f, ast.Name) and f.id == "bytes":
            return ast.copy_location(ast.Call(func=ast.Name(id="sx_bytes_", ctx=ast.Load()), args=node.args, keywords=node.keywords), node)
        if isinstance(f, ast.Attribute) and f.attr == "get" and not any(isinstance(a, ast.Starred) for a in node.args):
            return ast.copy_location(
                ast.Call(func=ast.Name(id="sx_get_", ctx=ast.Load()), args=[f.value] + node.args, keywords=node.keywords),
                node,
            )
        return node

    def visit_Compare(self, node):
        self.generic_visit(node)
        if len(node.ops) == 1 and isinstance(node.ops[0], (ast.In, ast.NotIn)):
            call = ast.Call(func=ast.Name(id="sx_in_", ctx=ast.Load()), args=[node.left, node.comparators[0]], keywords=[])
            if isinstance(node.ops[0], ast.NotIn):
                call = ast.UnaryOp(op=ast.Not(), operand=call)
            return ast.copy_location(call, node)
        return node

    def visit_Subscript(self, node):
        self.generic_visit(node)
        if isinstance(node.ctx, ast.Load) and not isinstance(node.slice, (ast.Slice, ast.Tuple)):
            return ast.copy_location(
                ast.Call(func=ast.Name(id="sx_getitem_", ctx=ast.Load()), args=[node.value, node.slice], keywords=[]),
                node,
            )
        return node

    def visit_AnnAssign(self, node):
        # annotations are not code: leave them alone
        if node.value is not None:
            node.value = self.visit(node.value)
        return node

    def visit_FunctionDef(self, node):
        node.body = [self.visit(b) for b in node.body]
        node.decorator_list = [self.visit(d) for d in node.decorator_list]
        return node

    visit_AsyncFunctionDef = visit_FunctionDef


def _purge():
    for k in [k for k in sys.modules if k == "someip" or k.startswith("someip.")]:
        del sys.modules[k]


def load_symbolic():
    """returns the package module `someip` with lowered submodules"""
    _purge()
    symbytes.install_enum_model()
    src = src_dir()
    sm = StructModel("struct")
    sys.modules["struct"] = sm
    import functools as real_functools

    ft = types.ModuleType("functools")
    ft.__dict__.update(real_functools.__dict__)
    ft.lru_cache = symbytes.sx_lru_cache
    ft.cache = symbytes.sx_lru_cache(maxsize=None)
    sys.modules["functools"] = ft
    try:
        pkg = types.ModuleType("someip")
        pkg.__path__ = [os.path.join(src, "someip")]
        pkg.__file__ = os.path.join(src, "someip", "__init__.py")
        sys.modules["someip"] = pkg
        for name in NAMES:
            path = os.path.join(src, "someip", name + ".py")
            with open(path) as f:
                tree = ast.parse(f.read(), path)
            tree = Lower().visit(tree)
            ast.fix_missing_locations(tree)
            mod = types.ModuleType("someip." + name)
            mod.__file__ = path
            mod.__package__ = "someip"
            mod.__dict__.update(bytearray=symbytes.bytearray_, sx_bjoin_=symbytes.bjoin, sx_in_=symbytes.sx_in, sx_getitem_=symbytes.sx_getitem, sx_get_=symbytes.sx_get, sx_bytes_=symbytes.sx_bytes, sx_int_from_bytes_=symbytes.sx_int_from_bytes)
            sys.modules["someip." + name] = mod
            setattr(pkg, name, mod)
            exec(compile(tree, path, "exec"), mod.__dict__)
    finally:
        sys.modules["struct"] = real_struct
        sys.modules["functools"] = real_functools
    hdr = pkg.header
    # ip address construction from (possibly symbolic) packed bytes
    hdr.AbstractIPv4Option._address_type = staticmethod(symbytes.ipv4)
    hdr.AbstractIPv6Option._address_type = staticmethod(symbytes.ipv6)
    # option registry: equality-scan lookup for symbolic type bytes
    hdr.SOMEIPSDOption._options = symbytes.ScanDict(hdr.SOMEIPSDOption._options)
    pkg.__verif_mode__ = "symbolic"
    snapshot_globals(pkg)
    return pkg


def load_concrete():
    """plain import of the unmodified files from the working tree"""
    _purge()
    src = src_dir()
    if src in sys.path:
        sys.path.remove(src)
    sys.path.insert(0, src)
    importlib.invalidate_caches()
    pkg = importlib.import_module("someip")
    for n in NAMES:
        importlib.import_module("someip." + n)
    assert os.path.realpath(pkg.__file__).startswith(os.path.realpath(src)), pkg.__file__
    pkg.__verif_mode__ = "concrete"
    snapshot_globals(pkg)
    collect_lru(pkg)
    return pkg


# ------------------------------------------------------------------ path isolation of module state
_SNAP = []


def snapshot_globals(pkg):
    """remember the content of every mutable module-level (and class-level) container of the
    repository's modules right after import"""
    del _SNAP[:]
    for name in NAMES:
        mod = getattr(pkg, name)
        spaces = [mod.__dict__]
        for v in list(mod.__dict__.values()):
            if isinstance(v, type) and getattr(v, "__module__", None) == mod.__name__:
                spaces.append(v.__dict__)
        for ns in spaces:
            for k, v in list(ns.items()):
                if k.startswith("__") and k.endswith("__"):
                    continue
                if type(v) in (dict, list, set) or type(v).__name__ in ("ScanDict", "defaultdict", "OrderedDict", "deque"):
                    try:
                        _SNAP.append((v, v.copy()))
                    except Exception:  # noqa: BLE001
                        pass


def reset_state():
    """called before every explored path / concrete item: module-level caches a change to the
    repository may introduce must not leak from one path into the next"""
    symbytes.reset_caches()
    for obj, saved in _SNAP:
        if isinstance(obj, (dict,)):
            if len(obj) != len(saved) or any(k not in saved for k in obj):
                obj.clear()
                obj.update(saved)
        elif isinstance(obj, list):
            if len(obj) != len(saved):
                obj[:] = saved
        elif isinstance(obj, set):
            if obj != saved:
                obj.clear()
                obj.update(saved)
        else:
            try:
                obj.clear()
                obj.extend(saved) if hasattr(obj, "extend") else obj.update(saved)
            except Exception:  # noqa: BLE001
                pass
    # functools.lru_cache objects of the unlowered modules (concrete mode)
    for f in _LRU:
        f.cache_clear()


_LRU = []


def collect_lru(pkg):
    del _LRU[:]
    for name in NAMES:
        mod = getattr(pkg, name)
        seen = [mod.__dict__] + [v.__dict__ for v in mod.__dict__.values() if isinstance(v, type) and getattr(v, "__module__", None) == mod.__name__]
        for ns in seen:
            for v in list(ns.values()):
                f = getattr(v, "__func__", v)
                if hasattr(f, "cache_clear") and hasattr(f, "cache_info"):
                    _LRU.append(f)

from __future__ import annotations

import argparse
import os
import sys

ROOT = os.path.dirname(os.path.dirname(os.path.abspath(__file__)))


def main():
    ap = argparse.ArgumentParser()
    ap.add_argument("prop")
    ap.add_argument("--tier", default=os.environ.get("VERIF_TIER", "quick"), choices=["quick", "thorough"])
    ap.add_argument("--replay")
    a = ap.parse_args()
    sys.path.insert(0, ROOT)
    sys.dont_write_bytecode = True
    import signal

    # let a SIGTERM unwind through the finally blocks (worker pool, scratch files)
    signal.signal(signal.SIGTERM, lambda *a: sys.exit(143))
    from . import runner

    if a.replay:
        sys.exit(runner.replay(a.replay))
    seed = int(os.environ.get("VERIF_SEED", "0") or 0)
    sys.exit(runner.run(a.prop.upper(), a.tier, seed))


if __name__ == "__main__":
    main()

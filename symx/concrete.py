"""ConcreteEngine: the same harness API as symx.engine.Engine but with plain Python
values taken from a recorded assignment.  Used to replay counterexamples and
sampled paths on the *unlowered* modules (real struct / bytes / enum)."""
from __future__ import annotations

from .engine import _jsonable


class ConcreteViolation(Exception):
    def __init__(self, label, detail=None):
        super().__init__(label)
        self.label, self.detail = label, detail


class MissingValue(Exception):
    """the concrete run asked for an input the symbolic path never created: the two
    executions diverged (engine defect, not a finding)"""


class OutOfDomain(Exception):
    pass


class ConcreteEngine:
    symbolic = False
    dead = False

    def __init__(self, values, strict=True):
        self.values = dict(values)
        self.used = set()
        self.obs = []
        self.path_reached = []
        self.violations = []
        self.strict = strict
        self.teardown = None
        self.proxy_errors = []

    def _get(self, name):
        if name not in self.values:
            raise MissingValue(name)
        self.used.add(name)
        return self.values[name]

    def int(self, name, lo=None, hi=None):
        v = int(self._get(name))
        if (lo is not None and v < lo) or (hi is not None and v > hi):
            raise OutOfDomain("%s=%r not in [%r,%r]" % (name, v, lo, hi))
        return v

    def bool(self, name):
        return bool(self._get(name))

    flag = bool

    def choice(self, name, n):
        if n == 1:
            return 0
        return self.int(name, 0, n - 1)

    def pick(self, name, seq):
        seq = list(seq)
        return seq[self.choice(name, len(seq))]

    def bytes(self, name, n):
        return bytes(self.int("%s[%d]" % (name, i), 0, 255) for i in range(n))

    def assume(self, cond):
        if not cond:
            raise OutOfDomain("assumption")

    def require(self, cond, label, detail=None):
        if not cond:
            if callable(detail):
                detail = detail()
            rec = ConcreteViolation(label, _jsonable(detail))
            self.violations.append(rec)
            if self.strict:
                raise rec

    def reach(self, label):
        self.path_reached.append(label)

    def observe(self, x):
        self.obs.append(x)

    def is_feasible(self, cond):
        return bool(cond)

    @staticmethod
    def And(*xs):
        return all(bool(x) for x in xs)

    @staticmethod
    def Or(*xs):
        return any(bool(x) for x in xs)

    @staticmethod
    def Not(x):
        return not x

    @staticmethod
    def Implies(a, b):
        return (not a) or bool(b)

    @staticmethod
    def Iff(a, b):
        return bool(a) == bool(b)

    @staticmethod
    def ite(c, a, b):
        return a if c else b

    @staticmethod
    def eq(a, b):
        from .engine import _deep_eq

        return bool(_deep_eq(a, b))

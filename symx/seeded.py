"""run the registered checks against the independently seeded changes in /verif/seeded"""
from __future__ import annotations

import json
import os
import shutil
import subprocess
import sys
import tempfile
import time

ROOT = os.path.dirname(os.path.dirname(os.path.abspath(__file__)))


def main():
    args = sys.argv[1:]
    in_place = "--in-place" in args
    names = [a for a in args if not a.startswith("--")]
    base = os.path.join(ROOT, "seeded")
    rows = []
    for name in sorted(os.listdir(base)):
        d = os.path.join(base, name)
        if not os.path.isdir(d) or (names and name not in names):
            continue
        meta = json.load(open(os.path.join(d, "meta.json")))
        patch = os.path.join(d, "patch.diff")
        checks = meta.get("checks") or [meta["property"]]
        tmp = tempfile.mkdtemp(prefix="seeded-")
        try:
            if in_place:
                subprocess.run(["git", "-C", "/repo", "apply", patch], check=True)
                env = dict(os.environ, VERIF_EVIDENCE_DIR=os.path.join(tmp, "evidence"))
            else:
                shutil.copytree("/repo/src", os.path.join(tmp, "src"), ignore=shutil.ignore_patterns("__pycache__", "*.egg-info"))
                subprocess.run(["patch", "-s", "-p1", "-d", tmp, "-i", patch], check=True)
                env = dict(os.environ, VERIF_REPO=tmp, VERIF_EVIDENCE_DIR=os.path.join(tmp, "evidence"))
            for prop in checks:
                t0 = time.time()
                r = subprocess.run([os.path.join(ROOT, "bin", "check"), prop, "--tier", os.environ.get("SEEDED_TIER", "quick")], capture_output=True, text=True, env=env)
                verdict = {0: "MISSED", 1: "DETECTED", 2: "INCONCLUSIVE"}.get(r.returncode, "rc=%d" % r.returncode)
                first = [l for l in r.stdout.splitlines() if l.startswith(("  harness=", "INCONCLUSIVE"))][:1]
                rows.append([name, prop, verdict, round(time.time() - t0), first[0][:200] if first else ""])
                print("%-14s %-4s %-12s %4ds %s" % tuple(rows[-1]), flush=True)
        finally:
            if in_place:
                subprocess.run(["git", "-C", "/repo", "checkout", "--", "."], check=True)
            shutil.rmtree(tmp, ignore_errors=True)
    out = os.path.join(base, "results.json")
    prev = {}
    if os.path.exists(out):
        prev = {(r[0], r[1]): r for r in json.load(open(out))}
    for r in rows:
        prev[(r[0], r[1])] = r
    json.dump(sorted(prev.values()), open(out, "w"), indent=1)


if __name__ == "__main__":
    main()

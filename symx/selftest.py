"""kill matrix of the own mutation corpus (never part of the registered commands)"""
from __future__ import annotations

import json
import os
import shutil
import subprocess
import sys
import tempfile
import time

ROOT = os.path.dirname(os.path.dirname(os.path.abspath(__file__)))


def main():
    sys.path.insert(0, ROOT)
    from mutants.mutants import MUTANTS

    sel = sys.argv[1:]
    rows = []
    for m in MUTANTS:
        if sel and not any(s in m["id"] for s in sel):
            continue
        tmp = tempfile.mkdtemp(prefix="selftest-")
        try:
            shutil.copytree("/repo/src", os.path.join(tmp, "src"), ignore=shutil.ignore_patterns("__pycache__", "*.egg-info"))
            p = os.path.join(tmp, "src", "someip", m["file"])
            s = open(p).read()
            if s.count(m["old"]) != 1:
                rows.append((m["id"], "-", "NOT APPLICABLE (anchor occurs %d times)" % s.count(m["old"])))
                continue
            open(p, "w").write(s.replace(m["old"], m["new"]))
            r = subprocess.run([sys.executable, "-c", "import sys; sys.path.insert(0, %r); import someip.sd, someip.service" % os.path.join(tmp, "src")], capture_output=True, text=True)
            if r.returncode != 0:
                rows.append((m["id"], "-", "DOES NOT IMPORT"))
                continue
            for prop in m["props"]:
                t0 = time.time()
                env = dict(os.environ, VERIF_REPO=tmp, VERIF_EVIDENCE_DIR=os.path.join(tmp, "evidence"))
                r = subprocess.run([os.path.join(ROOT, "bin", "check"), prop, "--tier", "quick"], capture_output=True, text=True, env=env)
                verdict = {0: "SURVIVED", 1: "KILLED", 2: "INCONCLUSIVE"}.get(r.returncode, "rc=%d" % r.returncode)
                if m.get("control"):
                    verdict += " (control: survival expected)"
                first = [l for l in r.stdout.splitlines() if l.startswith(("  harness=", "INCONCLUSIVE"))][:1]
                rows.append((m["id"], prop, "%s %.0fs %s" % (verdict, time.time() - t0, (first[0][:160] if first else ""))))
                print("%-28s %-4s %s" % rows[-1], flush=True)
        finally:
            shutil.rmtree(tmp, ignore_errors=True)
    out = os.path.join(ROOT, "mutants", "kill-matrix.json")
    prev = {}
    if os.path.exists(out) and sel:
        prev = {(r[0], r[1]): r for r in json.load(open(out))}
    for r in rows:
        prev[(r[0], r[1])] = list(r)
    json.dump(sorted(prev.values()), open(out, "w"), indent=1)
    bad = [r for r in rows if r[2].startswith(("SURVIVED", "INCONCLUSIVE", "NOT", "DOES")) and "control" not in r[2]]
    print("%d mutant/check pairs, %d not killed" % (len(rows), len(bad)))


if __name__ == "__main__":
    main()

"""symx.engine - lean dynamic symbolic execution by proxy values + z3.

The code under test runs unmodified on proxy values (SymInt/SymBool/...).  Every
``bool()`` on a symbolic condition asks z3 which outcomes are feasible under the
path condition and forks; paths are enumerated by a re-execution DFS over the
recorded decisions.  Properties are ``E.require(cond)`` calls whose negation z3
must find unsatisfiable on every path.

Control-flow exceptions derive from SystemExit because asyncio's Handle._run /
Task.__step and the repository's ``except Exception`` blocks swallow anything
else.
"""
from __future__ import annotations

import gc
import json
import time

import z3


class EngineExit(SystemExit):
    pass


class Infeasible(EngineExit):
    """the current path has no satisfying assignment (pruned)"""


class PathEnd(EngineExit):
    """the current path ends here (after a recorded violation)"""


class Inconclusive(EngineExit):
    def __init__(self, reason):
        super().__init__(reason)
        self.reason = reason


class ViolationRecord:
    __slots__ = ("label", "values", "detail")

    def __init__(self, label, values, detail):
        self.label, self.values, self.detail = label, values, detail


SOLVER_TIMEOUT_MS = 10000


class Engine:
    """symbolic engine; one instance explores one case (a DFS tree)"""

    cur = None  # the engine whose path is executing (proxies find it here)
    symbolic = True

    def __init__(self, seed=0, max_violations_per_label=3):
        self.seed = seed
        self.max_viol = max_violations_per_label
        # statistics over the whole exploration
        self.paths = 0
        self.infeasible = 0
        self.decisions = 0
        self.checks = 0
        self.solver_time = 0.0
        self.violations = []  # ViolationRecord
        self._viol_count = {}
        self.reached = {}
        self.proxy_errors = []
        self.samples = []
        self.pcs = []  # path conditions (z3 Bool) of finished paths, for the certificate
        self.ranges = {}  # name -> z3 range constraint
        self.keep_pcs = True
        self.want_samples = 2
        self.dead = True
        self.teardown = None
        self.complete = False
        self.exported = []  # smt2 strings of sampled discharged queries (for the 2nd solver)
        self.export_every = 0
        self.obligations = 0
        self.discharged = 0
        self._var_cache = {}
        self._range_solver = z3.Solver()
        self._range_solver.set("timeout", SOLVER_TIMEOUT_MS)
        self._or_cache = {}
        self._excl_cache = {}
        self.stop_on_violation = False
        self.frozen = 0
        self.pending_v = False
        self.prefix_pc = None
        self.delegated = []

    # ------------------------------------------------------------------ variables
    def _new_path(self):
        self.solver = z3.Solver()
        self.solver.set("timeout", SOLVER_TIMEOUT_MS)
        self.solver.set("random_seed", self.seed % (2**31))
        self._ctx_ref = self.solver.ctx.ref()
        self.trace = []
        self.dec_idx = []
        self.vars = {}
        self.pc = []
        self.obs = []
        self.path_reached = []
        self.teardown = None
        self.dead = False
        self._path_violated = False

    def _declare(self, name, v, rng=None):
        if name in self.vars:
            raise RuntimeError("duplicate symbolic variable %r" % name)
        self.vars[name] = v
        if rng is not None:
            self._assert(rng)
            self.ranges[name] = rng

    def int(self, name, lo=None, hi=None):
        if self.dead:
            return lo if lo is not None else 0
        ck = name
        hit = self._var_cache.get(ck)
        if hit is not None and hit[2] != (lo, hi):
            raise Inconclusive("variable %r declared with two different ranges" % name)
        if hit is None:
            v = z3.Int(name)
            cs = []
            if lo is not None:
                cs.append(v >= lo)
            if hi is not None:
                cs.append(v <= hi)
            hit = self._var_cache[ck] = (v, z3.And(*cs) if cs else None, (lo, hi))
            if hit[1] is not None:
                self._range_solver.add(hit[1])
        self._declare(name, hit[0], hit[1])
        return SymInt(hit[0])

    def bool(self, name):
        if self.dead:
            return False
        v = z3.Bool(name)
        self._declare(name, v)
        return SymBool(v)

    def choice(self, name, n):
        """symbolic index 0..n-1, concretised by a fork (an *alphabet* choice)"""
        if n == 1:
            return 0
        return int(self.int(name, 0, n - 1))

    def pick(self, name, seq):
        seq = list(seq)
        return seq[self.choice(name, len(seq))]

    def flag(self, name):
        """symbolic bool decided immediately (fork)"""
        return bool(self.bool(name))

    def bytes(self, name, n):
        from .symbytes import mk_bytes

        return mk_bytes([self.int("%s[%d]" % (name, i), 0, 255) for i in range(n)])

    # ------------------------------------------------------------------ solver
    def _check(self, *extra):
        self.checks += 1
        t0 = time.perf_counter()
        r = self.solver.check(*extra)
        self.solver_time += time.perf_counter() - t0
        if r == z3.unknown:
            raise Inconclusive("solver returned unknown: %s" % self.solver.reason_unknown())
        if r == z3.unsat and self.export_every and self.checks % self.export_every == 0 and len(self.exported) < 6:
            s = z3.Solver()
            s.add(*self.solver.assertions())
            s.add(*extra)
            self.exported.append(s.to_smt2())
        return r == z3.sat

    def _bits_of(self, term, k):
        """k fresh 0/1 integers whose weighted sum is `term` (defined on this path's solver)"""
        cache = self.__dict__.setdefault("_bit_cache", {})
        if cache.get("solver") is not self.solver:
            cache.clear()
            cache["solver"] = self.solver
        key = (term.sexpr(), k)
        if key not in cache:
            n = len(cache)
            bits = [z3.Int("bit!%d!%d" % (n, i)) for i in range(k)]
            for b in bits:
                self._assert(z3.And(b >= 0, b <= 1))
            self._assert(term == z3.Sum([bits[i] * (1 << i) for i in range(k)]))
            cache[key] = bits
        return cache[key]

    def _assert(self, c):
        # z3py's Solver.add spends most of its time coercing arguments; c is a BoolRef
        z3.Z3_solver_assert(self._ctx_ref, self.solver.solver, c.as_ast())

    def _add(self, c):
        self._assert(c)
        self.pc.append(c)

    def branch(self, cond):
        """decide the truth value of the z3 Bool `cond` on this path (forks)"""
        if self.dead:
            return False
        cond = z3.simplify(cond)
        if z3.is_true(cond):
            return True
        if z3.is_false(cond):
            return False
        i = len(self.trace)
        if i < len(self.prefix):
            ent = self.prefix[i]
            if ent[0] != "b":
                raise Inconclusive("non-deterministic replay (expected branch)")
            self.trace.append(ent)
            self.dec_idx.append(len(self.pc))
            self._add(cond if ent[1] else z3.Not(cond))
            self._mark_prefix()
            return ent[1]
        can_t = self._check(cond)
        can_f = self._check(z3.Not(cond))
        self.decisions += 1
        self.dec_idx.append(len(self.pc))
        if can_t:
            self.trace.append(["b", True, can_f])
            self._add(cond)
            return True
        if can_f:
            self.trace.append(["b", False, False])
            self._add(z3.Not(cond))
            return False
        self.dec_idx.pop()
        raise Infeasible()

    def concretize(self, term):
        """sound concretisation: fork over all feasible values of the Int `term`"""
        if self.dead:
            return 0
        term = z3.simplify(term)
        if z3.is_int_value(term):
            return term.as_long()
        i = len(self.trace)
        if i < len(self.prefix):
            ent = self.prefix[i]
            if ent[0] != "v":
                raise Inconclusive("non-deterministic replay (expected value)")
        else:
            ent = ["v", [], None, True]
            self.decisions += 1
        self.trace.append(ent)
        if ent[1]:
            # one cached conjunction per exclusion list (re-used on every replay)
            hit = self._excl_cache.get(id(ent))
            if hit is None or hit[0] is not ent or hit[1] != len(ent[1]):
                hit = (ent, len(ent[1]), z3.And(*[term != t for t in ent[1]]) if len(ent[1]) > 1 else term != ent[1][0])
                if len(self._excl_cache) > 4096:
                    self._excl_cache.clear()
                self._excl_cache[id(ent)] = hit
            self._add(hit[2])
        if self.prefix_pc is None and self.pending_v and i == self.frozen:
            # this job's root is a partially explored value decision: its region is
            # "prefix and none of the values already handed out"
            self.prefix_pc = z3.And(*self.pc) if self.pc else z3.BoolVal(True)
        self.dec_idx.append(len(self.pc))
        if ent[2] is None:
            if not self._check():
                ent[3] = False
                raise Infeasible()
            ent[2] = self.solver.model().eval(term, model_completion=True).as_long()
        self._add(term == ent[2])
        self._mark_prefix()
        return ent[2]

    def _mark_prefix(self):
        if self.prefix_pc is None and not self.pending_v and self.frozen and len(self.trace) == self.frozen:
            self.prefix_pc = z3.And(*self.pc) if self.pc else z3.BoolVal(True)

    def assume(self, cond):
        """restrict the precondition (part of the claim, listed by the harness)"""
        if self.dead:
            return
        c = _zb(cond)
        if c is True:
            return
        if c is False:
            self.excluded.append(z3.And(*self.pc) if self.pc else z3.BoolVal(True))
            raise Infeasible()
        self.excluded.append(z3.And(*(self.pc + [z3.Not(c)])))
        self._add(c)
        if not self._check():
            raise Infeasible()

    # ------------------------------------------------------------------ oracles
    def _values(self, model):
        out = {}
        for k, v in self.vars.items():
            x = model.eval(v, model_completion=True)
            out[k] = bool(z3.is_true(x)) if z3.is_bool(v) else x.as_long()
        return out

    def require(self, cond, label, detail=None):
        """assert `cond` for every assignment on this path; on failure record a
        counterexample and continue on the part of the path where it holds"""
        if self.dead:
            return
        c = _zb(cond)
        self.obligations += 1
        if c is True:
            self.discharged += 1
            return
        if c is False:
            if not self._check():
                raise Infeasible()
            self._record(label, self.solver.model(), detail)
            raise PathEnd()
        if self._check(z3.Not(c)):
            self._record(label, self.solver.model(), detail)
            self._add(c)
            if not self._check():
                raise PathEnd()
        else:
            self.discharged += 1

    def _record(self, label, model, detail):
        self._path_violated = True
        n = self._viol_count.get(label, 0)
        self._viol_count[label] = n + 1
        if n < self.max_viol:
            if callable(detail):
                detail = detail()
            self.violations.append(ViolationRecord(label, self._values(model), _jsonable(self.evaluate(detail, model))))

    def reach(self, label):
        if not self.dead:
            self.path_reached.append(label)

    def observe(self, x):
        if not self.dead:
            self.obs.append(x)

    def evaluate(self, x, model):
        """concrete value of a (possibly symbolic, nested) observation under `model`"""
        from .symbytes import SymBytes, SymStr

        if isinstance(x, SymInt):
            return model.eval(x.z, model_completion=True).as_long()
        if isinstance(x, SymBool):
            return bool(z3.is_true(model.eval(x.z, model_completion=True)))
        if isinstance(x, SymBytes):
            return bytes(self.evaluate(b, model) for b in x.items)
        if isinstance(x, SymStr):
            return bytes(self.evaluate(b, model) for b in x.items).decode("latin-1")
        if isinstance(x, (list, tuple)):
            return type(x)(self.evaluate(y, model) for y in x) if type(x) in (list, tuple) else [self.evaluate(y, model) for y in x]
        if isinstance(x, dict):
            return {k: self.evaluate(v, model) for k, v in x.items()}
        return x

    # boolean combinators usable in both engines (no forking)
    @staticmethod
    def And(*xs):
        zs = [_zb(x) for x in xs]
        if any(z is False for z in zs):
            return False
        zs = [z for z in zs if z is not True]
        if not zs:
            return True
        return SymBool(z3.And(*zs))

    @staticmethod
    def Or(*xs):
        zs = [_zb(x) for x in xs]
        if any(z is True for z in zs):
            return True
        zs = [z for z in zs if z is not False]
        if not zs:
            return False
        return SymBool(z3.Or(*zs))

    @staticmethod
    def Not(x):
        z = _zb(x)
        if z is True:
            return False
        if z is False:
            return True
        return SymBool(z3.Not(z))

    @classmethod
    def Implies(cls, a, b):
        return cls.Or(cls.Not(a), b)

    @classmethod
    def Iff(cls, a, b):
        return cls.And(cls.Implies(a, b), cls.Implies(b, a))

    @staticmethod
    def ite(c, a, b):
        z = _zb(c)
        if z is True:
            return a
        if z is False:
            return b
        az, bz = _zi(a), _zi(b)
        return SymInt(z3.If(z, az, bz))

    def eq(self, a, b):
        """deep structural equality as one condition (no forks)"""
        return _deep_eq(a, b)

    def is_feasible(self, cond):
        """does some assignment on this path satisfy cond? (no fork, no recording)"""
        c = _zb(cond)
        if c is True:
            return True
        if c is False:
            return False
        return self._check(c)

    # ------------------------------------------------------------------ exploration
    def explore(self, fn, max_paths=None, deadline=None, prefix=None, frozen=0, pending_v=False):
        """run fn(self) on every feasible path below `prefix` (decisions [0:frozen] are fixed;
        with pending_v the decision at index `frozen` is a value decision some of whose
        values were already handed to other jobs).

        Returns True when the subtree was exhausted *or* its unexplored remainder was
        handed over in self.delegated (list of job dicts) because max_paths was reached;
        False when the deadline hit."""
        self.prefix = [list(e) for e in (prefix or [])]
        self.frozen = frozen
        self.pending_v = pending_v
        self.prefix_pc = None
        self.delegated = []
        self.excluded = []
        done_here = 0
        gc_was = gc.isenabled()
        gc.disable()
        try:
            while True:
                self._new_path()
                Engine.cur = self
                ended = None
                try:
                    fn(self)
                    ended = "ok"
                except Infeasible:
                    self.infeasible += 1
                    ended = "infeasible"
                except PathEnd:
                    ended = "violated"
                finally:
                    self.dead = True
                    td = self.teardown
                    if td:
                        try:
                            td()
                        except EngineExit:
                            pass
                    Engine.cur = None
                if ended != "infeasible":
                    self.paths += 1
                    done_here += 1
                    for lab in self.path_reached:
                        self.reached[lab] = self.reached.get(lab, 0) + 1
                    if self.keep_pcs:
                        self.pcs.append(z3.And(*self.pc) if self.pc else z3.BoolVal(True))
                    if len(self.samples) < self.want_samples and ended == "ok":
                        self._sample()
                self._since_gc = getattr(self, "_since_gc", 0) + 1
                if self._since_gc >= 32:
                    self._since_gc = 0
                    gc.collect()
                tr = self.trace
                while len(tr) > frozen:
                    ent = tr[-1]
                    if ent[0] == "b" and ent[2]:
                        tr[-1] = ["b", not ent[1], False]
                        break
                    if ent[0] == "v" and ent[3]:
                        tr[-1] = ["v", ent[1] + [ent[2]], None, True]
                        break
                    tr.pop()
                if len(tr) <= frozen:
                    self.complete = True
                    return True
                self.prefix = list(tr)
                if self.stop_on_violation and self.violations:
                    return False
                if max_paths is not None and done_here >= max_paths:
                    self._delegate(tr, frozen)
                    self.complete = True
                    return True
                if deadline is not None and time.time() > deadline:
                    return False
        finally:
            gc.collect()
            if gc_was:
                gc.enable()

    def _delegate(self, tr, frozen):
        """split the unexplored remainder of this subtree into independent jobs.
        tr is the next DFS prefix: tr[:-1] equals the last executed path's decisions and
        tr[-1] is its deepest open alternative (already flipped)."""
        pc, idx = self.pc, self.dec_idx
        j = len(tr) - 1
        for i in range(frozen, j + 1):
            ent = tr[i]
            if i < j:
                if ent[0] == "b":
                    if not ent[2]:
                        continue
                    alt = ["b", not ent[1], False]
                else:
                    if not ent[3]:
                        continue
                    alt = ["v", ent[1] + [ent[2]], None, True]
            else:
                alt = ent
            region = z3.And(*(pc[: idx[i]] + [z3.Not(pc[idx[i]])]))
            job = {"prefix": json.loads(json.dumps(tr[:i] + [alt])), "frozen": i + 1 if alt[0] == "b" else i, "pending_v": alt[0] == "v"}
            self.delegated.append(job)
            if self.keep_pcs:
                self.pcs.append(region)

    def _sample(self):
        # a model of the finished path: inputs + observations
        if not self._check():
            return
        m = self.solver.model()
        self.samples.append({"inputs": self._values(m), "observed": _jsonable(self.evaluate(self.obs, m))})

    def certificate(self, timeout_ms=60000):
        """explored path conditions (plus regions removed by assume) cover the
        precondition: ranges AND NOT(OR pcs) must be unsat"""
        s = z3.Solver()
        s.set("timeout", timeout_ms)
        for r in self.ranges.values():
            s.add(r)
        if self.prefix_pc is not None:
            s.add(self.prefix_pc)
        s.add(z3.Not(z3.Or(*(self.pcs + self.excluded))) if (self.pcs or self.excluded) else z3.BoolVal(True))
        t0 = time.perf_counter()
        r = s.check()
        self.solver_time += time.perf_counter() - t0
        self.checks += 1
        return str(r)


# ---------------------------------------------------------------------- proxies
_IV = {}


def _zi(x):
    if isinstance(x, SymInt):
        return x.z
    if isinstance(x, int):
        x = int(x)
        v = _IV.get(x)
        if v is None:
            v = z3.IntVal(x)
            if len(_IV) < 100000:
                _IV[x] = v
        return v
    return None


def _zb(x):
    """-> True | False | z3 Bool"""
    if isinstance(x, SymBool):
        z = z3.simplify(x.z)
        if z3.is_true(z):
            return True
        if z3.is_false(z):
            return False
        return z
    if isinstance(x, bool):
        return x
    if isinstance(x, z3.BoolRef):
        return x
    if isinstance(x, SymInt):
        return _zb(SymBool(x.z != 0))
    if x is None:
        return False
    return bool(x)


class SymBool:
    __slots__ = ("z",)

    def __init__(self, z):
        self.z = z

    def __bool__(self):
        return Engine.cur.branch(self.z) if Engine.cur is not None else False

    def __eq__(self, o):
        if isinstance(o, SymBool):
            return SymBool(self.z == o.z)
        if isinstance(o, bool):
            return SymBool(self.z if o else z3.Not(self.z))
        if isinstance(o, int) and o in (0, 1):
            return SymBool(self.z if o else z3.Not(self.z))
        return False

    def __ne__(self, o):
        r = self.__eq__(o)
        return SymBool(z3.Not(r.z)) if isinstance(r, SymBool) else (not r)

    def __and__(self, o):
        return Engine.And(self, o)

    __rand__ = __and__

    def __or__(self, o):
        return Engine.Or(self, o)

    __ror__ = __or__

    def __invert__(self):
        return Engine.Not(self)

    def __hash__(self):
        return hash(bool(self))

    def __int__(self):
        return int(bool(self))

    __index__ = __int__

    def __repr__(self):
        return "<symbool>"

    def __format__(self, spec):
        return "<symbool>"


def _runs_of_ones(m):
    pos = 0
    while m:
        if m & 1:
            ln = 0
            while m & 1:
                ln += 1
                m >>= 1
            yield pos, ln
            pos += ln
        else:
            m >>= 1
            pos += 1


class SymInt:
    """proxy for a Python int; wraps a z3 Int term (mathematical integer)"""

    __slots__ = ("z",)

    def __init__(self, z):
        self.z = z

    # arithmetic ---------------------------------------------------------
    def _bin(self, o, f, rev=False):
        oz = _zi(o)
        if oz is None:
            return NotImplemented
        return SymInt(f(oz, self.z) if rev else f(self.z, oz))

    def _cmp(self, o, f):
        oz = _zi(o)
        if oz is None:
            return NotImplemented
        return SymBool(f(self.z, oz))

    def __add__(self, o):
        return self._bin(o, lambda a, b: a + b)

    def __radd__(self, o):
        return self._bin(o, lambda a, b: a + b, True)

    def __sub__(self, o):
        return self._bin(o, lambda a, b: a - b)

    def __rsub__(self, o):
        return self._bin(o, lambda a, b: a - b, True)

    def __mul__(self, o):
        if isinstance(o, SymInt):
            raise Inconclusive("symbolic x symbolic multiplication")
        return self._bin(o, lambda a, b: a * b)

    def __rmul__(self, o):
        return self._bin(o, lambda a, b: a * b, True)

    def __floordiv__(self, o):
        if not (isinstance(o, int) and o > 0):
            raise Inconclusive("floordiv by non-constant")
        return SymInt(self.z / o)  # z3 Int division floors for positive divisors

    def __mod__(self, o):
        if not (isinstance(o, int) and o > 0):
            raise Inconclusive("mod by non-constant")
        return SymInt(self.z % o)

    def __neg__(self):
        return SymInt(-self.z)

    def __pos__(self):
        return self

    def __abs__(self):
        return SymInt(z3.If(self.z >= 0, self.z, -self.z))

    def __lt__(self, o):
        return self._cmp(o, lambda a, b: a < b)

    def __le__(self, o):
        return self._cmp(o, lambda a, b: a <= b)

    def __gt__(self, o):
        return self._cmp(o, lambda a, b: a > b)

    def __ge__(self, o):
        return self._cmp(o, lambda a, b: a >= b)

    def __eq__(self, o):
        r = self._cmp(o, lambda a, b: a == b)
        return False if r is NotImplemented else r

    def __ne__(self, o):
        r = self._cmp(o, lambda a, b: a != b)
        return True if r is NotImplemented else r

    def __bool__(self):
        return Engine.cur.branch(self.z != 0) if Engine.cur is not None else False

    def __index__(self):
        return Engine.cur.concretize(self.z) if Engine.cur is not None else 0

    __int__ = __index__

    def __hash__(self):
        return hash(self.__index__())

    def __format__(self, spec):
        return "<sym>"

    def __repr__(self):
        return "<symint>"

    __str__ = __repr__

    # shifts and masks (constants only on one side, else bit-vector fallback) ---
    def __rshift__(self, k):
        if not isinstance(k, int):
            raise Inconclusive("shift by non-constant")
        return SymInt(self.z / (1 << k))

    def __lshift__(self, k):
        if not isinstance(k, int):
            raise Inconclusive("shift by non-constant")
        return SymInt(self.z * (1 << k))

    def _nonneg(self):
        E = Engine.cur
        if E is not None and not E.dead and E._check(self.z < 0):
            raise Inconclusive("bit operation on a possibly negative symbolic int")

    def __and__(self, o):
        if isinstance(o, bool):
            o = int(o)
        if isinstance(o, int) and o >= 0:
            # exact for negative x as well: bit i of x (two's complement, as Python ints
            # behave) is floor(x / 2^i) mod 2, and z3's div/mod floor for positive divisors
            total = None
            for pos, ln in _runs_of_ones(o):
                term = ((self.z / (1 << pos)) % (1 << ln)) * (1 << pos)
                total = term if total is None else total + term
            return SymInt(total if total is not None else z3.IntVal(0))
        if isinstance(o, int):  # x & ~m == x - (x & m)
            return self - (self & ~o)
        if isinstance(o, SymInt):
            return self._bv(o, lambda a, b: a & b)
        return NotImplemented

    __rand__ = __and__

    def __or__(self, o):
        if isinstance(o, bool):
            o = int(o)
        if isinstance(o, int) and o >= 0:
            return self + o - (self & o)
        if not isinstance(o, SymInt):
            return NotImplemented
        E = Engine.cur
        if E is None or E.dead:
            return SymInt(self.z + o.z)
        # x | y == x + y when the bit ranges are disjoint.  First try a proof from the
        # variables' declared ranges only (valid on every path, cached), then under the
        # path condition.
        key = (self.z.sexpr(), o.z.sexpr())
        hit = E._or_cache.get(key)
        if hit is None:
            hit = False
            for a, b in ((self.z, o.z), (o.z, self.z)):
                for k in (16, 8, 4, 20, 24, 32):
                    ok = z3.And(a % (1 << k) == 0, b >= 0, b < (1 << k), a >= 0)
                    E.checks += 1
                    if E._range_solver.check(z3.Not(ok)) == z3.unsat:
                        hit = True
                        break
                if hit:
                    break
            E._or_cache[key] = hit
        if hit:
            return SymInt(self.z + o.z)
        for a, b in ((self.z, o.z), (o.z, self.z)):
            for k in (4, 8, 16, 20, 24, 32):
                ok = z3.And(a % (1 << k) == 0, b >= 0, b < (1 << k), a >= 0)
                if not E._check(z3.Not(ok)):
                    return SymInt(a + b)
        return self._bv(o, lambda a, b: a | b)

    __ror__ = __or__

    def __xor__(self, o):
        if isinstance(o, int) and o >= 0:
            return (self | o) - (self & o)
        if isinstance(o, SymInt):
            return self._bv(o, lambda a, b: a ^ b)
        return NotImplemented

    __rxor__ = __xor__

    def __invert__(self):
        return SymInt(-self.z - 1)

    def to_bytes(self, length=1, byteorder="big", *, signed=False):
        from .symbytes import mk_bytes

        if signed:
            raise Inconclusive("signed to_bytes of a symbolic int")
        if self < 0 or self >= (1 << (8 * length)):
            raise OverflowError("int too big to convert")
        items = [(self // (256**k)) % 256 for k in range(length - 1, -1, -1)]
        if byteorder == "little":
            items.reverse()
        return mk_bytes(items)

    def _bv(self, o, f):
        self._nonneg()
        o._nonneg()
        a, b = z3.Int2BV(self.z, 64), z3.Int2BV(o.z, 64)
        return SymInt(z3.BV2Int(f(a, b)))


def _deep_eq(a, b):
    """structural equality of two values as a single SymBool/bool (never forks)"""
    import dataclasses
    import enum
    import ipaddress

    from .symbytes import SymBytes, SymByteArray, SymStr, SymIP

    if isinstance(a, (SymInt, SymBool)) or isinstance(b, (SymInt, SymBool)):
        if isinstance(a, enum.Enum):
            a = a.value
        if isinstance(b, enum.Enum):
            b = b.value
        if isinstance(a, SymBool) or isinstance(b, SymBool):
            za, zb = _zb(a), _zb(b)
            if isinstance(za, bool) and isinstance(zb, bool):
                return za == zb
            za = z3.BoolVal(za) if isinstance(za, bool) else za
            zb = z3.BoolVal(zb) if isinstance(zb, bool) else zb
            return SymBool(za == zb)
        r = a == b
        return r
    if isinstance(a, (SymBytes, SymByteArray, SymStr)) or isinstance(b, (SymBytes, SymByteArray, SymStr)):
        if isinstance(a, str):
            a = a.encode("latin-1")
        if isinstance(b, str):
            b = b.encode("latin-1")
        if isinstance(a, (bytes, bytearray, SymBytes, SymByteArray, SymStr)) and isinstance(b, (bytes, bytearray, SymBytes, SymByteArray, SymStr)):
            ai = tuple(a.items) if hasattr(a, "items") else tuple(a)
            bi = tuple(b.items) if hasattr(b, "items") else tuple(b)
            if len(ai) != len(bi):
                return False
            return Engine.And(*[_deep_eq(x, y) for x, y in zip(ai, bi) if x is not y])
        return False
    if isinstance(a, SymIP) or isinstance(b, SymIP):
        pa = a.packed if isinstance(a, (SymIP, ipaddress.IPv4Address, ipaddress.IPv6Address)) else None
        pb = b.packed if isinstance(b, (SymIP, ipaddress.IPv4Address, ipaddress.IPv6Address)) else None
        if pa is None or pb is None:
            return False
        return _deep_eq(pa, pb)
    if isinstance(a, (tuple, list)) and isinstance(b, (tuple, list)):
        if len(a) != len(b):
            return False
        return Engine.And(*[_deep_eq(x, y) for x, y in zip(a, b)])
    if dataclasses.is_dataclass(a) and dataclasses.is_dataclass(b) and not isinstance(a, type):
        if type(a).__name__ != type(b).__name__:
            return False
        fa = [f.name for f in dataclasses.fields(a) if f.compare]
        return Engine.And(*[_deep_eq(getattr(a, n), getattr(b, n)) for n in fa])
    if isinstance(a, (bytes, bytearray)) and isinstance(b, (bytes, bytearray)):
        return bytes(a) == bytes(b)
    if isinstance(a, (frozenset, set)) and isinstance(b, (frozenset, set)):
        return a == b
    r = a == b
    if isinstance(r, (SymBool, bool)):
        return r
    return bool(r)


def _jsonable(x):
    import dataclasses
    import enum

    if x is None or isinstance(x, (bool, int, float, str)):
        return x
    if isinstance(x, enum.Enum):
        return x.name
    if isinstance(x, (bytes, bytearray)):
        return bytes(x).hex()
    if isinstance(x, dict):
        return {str(k): _jsonable(v) for k, v in x.items()}
    if isinstance(x, (list, tuple, set, frozenset)):
        return [_jsonable(v) for v in x]
    if dataclasses.is_dataclass(x) and not isinstance(x, type):
        return {"_": type(x).__name__, **{f.name: _jsonable(getattr(x, f.name)) for f in dataclasses.fields(x)}}
    return repr(x)

"""symx - bounded symbolic execution of the repository's own Python code with z3"""

"""Concrete validator: runs recorded assignments through the same harness code on the
*unlowered* repository modules (plain import of the working tree).

usage: python -m symx.validate batch.json   -> last stdout line is a JSON list
"""
from __future__ import annotations

import json
import multiprocessing as mp
import os
import sys
import traceback

ROOT = os.path.dirname(os.path.dirname(os.path.abspath(__file__)))
_C = {}


def _mods():
    if "m" not in _C:
        import logging
        import warnings

        from . import loader
        from .runner import Mods

        pkg = loader.load_concrete()
        _C["m"] = Mods(pkg)
        logging.disable(logging.CRITICAL)
        warnings.simplefilter("ignore")
    return _C["m"]


def run_item(item, verbose=False):
    from .concrete import ConcreteEngine, ConcreteViolation, MissingValue, OutOfDomain
    from .engine import _jsonable
    from .runner import harness_module

    sys.dont_write_bytecode = True
    M = _mods()
    hm = harness_module(item["prop"])
    fn = hm.SCENARIOS[item["case"]["h"]]
    from . import loader as _loader

    _loader.reset_state()
    E = ConcreteEngine(item["values"])
    if verbose:
        E.verbose = True
    from oracle.wire import WireError

    from .runner import WIRE_LABEL

    try:
        try:
            try:
                fn(E, M, item["case"])
            except WireError as exc:
                E.require(False, WIRE_LABEL, {"error": str(exc)})
            except (ConcreteViolation, MissingValue, OutOfDomain):
                raise
            except Exception as exc:  # noqa: BLE001
                from . import loader
                from .runner import ESCAPE_LABEL, raised_in_repo

                if not raised_in_repo(exc, loader.src_dir()):
                    raise
                E.require(False, ESCAPE_LABEL, {"exception": repr(exc)[:300]})
        finally:
            E.dead = True
            if E.teardown:
                try:
                    E.teardown()
                except Exception:
                    pass
    except ConcreteViolation as v:
        return {"status": "violation", "label": v.label, "detail": v.detail, "observed": _jsonable(E.obs)}
    except MissingValue as m:
        return {"status": "diverged", "missing": str(m), "observed": _jsonable(E.obs)}
    except OutOfDomain as o:
        return {"status": "out-of-domain", "why": str(o)}
    except BaseException as e:
        return {"status": "error", "error": repr(e), "trace": traceback.format_exc(limit=8)}
    return {"status": "ok", "observed": _jsonable(E.obs)}


def main():
    sys.path.insert(0, ROOT)
    with open(sys.argv[1]) as f:
        items = json.load(f)
    n = min(int(os.environ.get("VERIF_JOBS", 16)), max(1, len(items)))
    if n <= 1 or len(items) < 4:
        res = [run_item(i) for i in items]
    else:
        with mp.get_context("fork").Pool(n) as pool:
            res = pool.map(run_item, items, chunksize=max(1, len(items) // (4 * n)))
    print(json.dumps(res))


if __name__ == "__main__":
    main()

"""Models of the C-level sequence primitives the repository uses on message bytes:
bytes / bytearray / b"".join / struct / str(ascii) / ip addresses / int-keyed dicts.
All of them delegate to the real primitive when every operand is concrete."""
from __future__ import annotations

import enum
import ipaddress
import re
import struct as _struct

import z3

from .engine import Engine, Inconclusive, SymBool, SymInt


def _concrete(x):
    return isinstance(x, int)


def mk_bytes(items):
    items = tuple(items)
    if all(_concrete(x) for x in items):
        return bytes(items)
    return SymBytes(items)


def _items(o):
    if isinstance(o, (SymBytes, SymByteArray, SymStr)):
        return tuple(o.items)
    if isinstance(o, (bytes, bytearray, memoryview)):
        return tuple(o)
    raise TypeError("a bytes-like object is required, not %r" % type(o).__name__)


class SymBytes:
    """immutable byte string of concrete length whose elements are int or SymInt(0..255)"""

    __slots__ = ("items",)

    def __init__(self, items):
        self.items = tuple(items)

    def __len__(self):
        return len(self.items)

    def __iter__(self):
        return iter(self.items)

    def __getitem__(self, i):
        if isinstance(i, slice):
            return mk_bytes(self.items[i])
        return self.items[i]

    def __add__(self, o):
        if isinstance(o, (bytes, bytearray, SymBytes, SymByteArray)):
            return mk_bytes(self.items + _items(o))
        return NotImplemented

    def __radd__(self, o):
        if isinstance(o, (bytes, bytearray)):
            return mk_bytes(tuple(o) + self.items)
        return NotImplemented

    def __mul__(self, n):
        return mk_bytes(self.items * n)

    def __eq__(self, o):
        if not isinstance(o, (bytes, bytearray, SymBytes, SymByteArray)):
            return False
        oi = _items(o)
        if len(oi) != len(self.items):
            return False
        conds = []
        for a, b in zip(self.items, oi):
            if a is b:
                continue
            r = a == b
            if isinstance(r, SymBool):
                conds.append(r.z)
            elif not r:
                return False
        if not conds:
            return True
        return SymBool(z3.And(*conds))

    def __ne__(self, o):
        r = self.__eq__(o)
        return SymBool(z3.Not(r.z)) if isinstance(r, SymBool) else (not r)

    def __hash__(self):
        return hash(bytes(int(x) for x in self.items))

    def __bytes__(self):
        return bytes(int(x) for x in self.items)

    def __bool__(self):
        return len(self.items) > 0

    def __contains__(self, x):
        if isinstance(x, (bytes, SymBytes)):
            return self.find(x) != -1
        for y in self.items:
            if y == x:
                return True
        return False

    def find(self, sub, start=0):
        sub = _items(sub)
        n = len(sub)
        for i in range(start, len(self.items) - n + 1):
            if all(self.items[i + k] == sub[k] for k in range(n)):
                return i
        return -1

    def index(self, sub):
        r = self.find(sub)
        if r < 0:
            raise ValueError("subsection not found")
        return r

    def _strip(self, chars, left, right):
        chars = tuple(_items(chars)) if chars is not None else tuple(b" \t\n\r\x0b\x0c")
        items = list(self.items)

        def hit(x):
            return any(x == c for c in chars)

        if left:
            while items and hit(items[0]):
                items.pop(0)
        if right:
            while items and hit(items[-1]):
                items.pop()
        return mk_bytes(items)

    def lstrip(self, chars=None):
        return self._strip(chars, True, False)

    def rstrip(self, chars=None):
        return self._strip(chars, False, True)

    def strip(self, chars=None):
        return self._strip(chars, True, True)

    def endswith(self, p):
        p = _items(p)
        return len(p) <= len(self.items) and all(a == b for a, b in zip(self.items[len(self.items) - len(p) :], p))

    def count(self, sub):
        sub = _items(sub)
        n = len(sub)
        return sum(1 for i in range(len(self.items) - n + 1) if all(self.items[i + k] == sub[k] for k in range(n)))

    def split(self, sep, maxsplit=-1):
        sep = _items(sep)
        out, cur, i = [], [], 0
        while i < len(self.items):
            if (maxsplit < 0 or len(out) < maxsplit) and i + len(sep) <= len(self.items) and all(self.items[i + k] == sep[k] for k in range(len(sep))):
                out.append(mk_bytes(cur))
                cur = []
                i += len(sep)
            else:
                cur.append(self.items[i])
                i += 1
        out.append(mk_bytes(cur))
        return out

    def partition(self, sep):
        i = self.find(sep)
        if i < 0:
            return self, b"", b""
        return mk_bytes(self.items[:i]), bytes(_items(sep)), mk_bytes(self.items[i + len(_items(sep)) :])

    def startswith(self, p):
        p = _items(p)
        return len(p) <= len(self.items) and all(a == b for a, b in zip(self.items, p))

    def decode(self, enc="utf-8", errors="strict"):
        if enc.lower() != "ascii" or errors != "strict":
            raise Inconclusive("decode(%r) of symbolic bytes is not modelled" % enc)
        for i, x in enumerate(self.items):
            if x >= 0x80:
                raise UnicodeDecodeError("ascii", b"\xff", 0, 1, "ordinal not in range(128)")
        return SymStr(self.items)

    def hex(self, *a):
        return "<symbytes>"

    def __repr__(self):
        return "<symbytes %d>" % len(self.items)

    def __format__(self, spec):
        return repr(self)


class SymByteArray:
    """model of bytearray for the append/extend/+= uses in the encoders"""

    def __init__(self, init=()):
        if isinstance(init, int):
            init = [0] * init
        self.items = list(_items(init) if isinstance(init, (bytes, bytearray, SymBytes, SymByteArray)) else init)

    @staticmethod
    def _chk(v):
        if isinstance(v, (SymInt, int)) and not isinstance(v, bool):
            if v < 0 or v > 255:
                raise ValueError("byte must be in range(0, 256)")
            return v
        if isinstance(v, bool):
            return int(v)
        raise TypeError("an integer is required")

    def append(self, x):
        self.items.append(self._chk(x))

    def extend(self, x):
        self.items.extend(_items(x) if isinstance(x, (bytes, bytearray, SymBytes, SymByteArray)) else [self._chk(v) for v in x])

    def __iadd__(self, o):
        self.items.extend(_items(o))
        return self

    def __len__(self):
        return len(self.items)

    def __iter__(self):
        return iter(self.items)

    def __bool__(self):
        return len(self.items) > 0

    def __getitem__(self, i):
        if isinstance(i, slice):
            return mk_bytes(self.items[i])
        return self.items[i]

    def __eq__(self, o):
        return SymBytes(self.items) == o

    def __ne__(self, o):
        return SymBytes(self.items) != o

    __hash__ = None

    def __add__(self, o):
        return mk_bytes(tuple(self.items) + _items(o))

    def __radd__(self, o):
        return mk_bytes(_items(o) + tuple(self.items))

    def __bytes__(self):
        return bytes(int(x) for x in self.items)

    def __repr__(self):
        return "<symbytearray %d>" % len(self.items)


def bytearray_(init=(), *a):
    """stand-in for the builtin `bytearray` inside the lowered modules"""
    if a:
        return bytearray(init, *a)
    if isinstance(init, (bytes, bytearray, int, str)):
        if isinstance(init, int) or isinstance(init, (bytes, bytearray)):
            return SymByteArray(init)
        return bytearray(init)
    if isinstance(init, (SymBytes, SymByteArray)):
        return SymByteArray(init)
    out = SymByteArray()
    for v in init:
        out.append(v)
    return out


def bjoin(sep, parts):
    """stand-in for  b"..".join(parts)"""
    sep = tuple(sep)
    out = []
    first = True
    for p in parts:
        if not first:
            out.extend(sep)
        first = False
        out.extend(_items(p))
    return mk_bytes(out)


class SymStr:
    """ASCII text with symbolic characters (configuration option keys/values)"""

    __slots__ = ("items",)

    def __init__(self, items):
        self.items = tuple(items)

    def __eq__(self, o):
        if isinstance(o, str):
            try:
                o = SymStr(tuple(o.encode("ascii")))
            except UnicodeEncodeError:
                return False
        if not isinstance(o, SymStr):
            return False
        return SymBytes(self.items) == SymBytes(o.items)

    def __ne__(self, o):
        r = self.__eq__(o)
        return SymBool(z3.Not(r.z)) if isinstance(r, SymBool) else (not r)

    def __hash__(self):
        return hash(bytes(int(x) for x in self.items).decode("ascii"))

    def __len__(self):
        return len(self.items)

    def __add__(self, o):
        if isinstance(o, str):
            o = SymStr(tuple(o.encode("ascii")))
        return SymStr(self.items + o.items)

    def encode(self, enc="utf-8", errors="strict"):
        if enc.lower() not in ("ascii", "utf-8", "latin-1"):
            raise Inconclusive("encode(%r) of symbolic text" % enc)
        if enc.lower() == "ascii":
            for x in self.items:
                if x >= 0x80:
                    raise UnicodeEncodeError("ascii", "\xff", 0, 1, "ordinal not in range(128)")
        return mk_bytes(self.items)

    def __repr__(self):
        return "<symstr %d>" % len(self.items)

    def __format__(self, spec):
        return repr(self)


def mk_str(items):
    items = tuple(items)
    if all(_concrete(x) for x in items):
        return bytes(items).decode("ascii")
    return SymStr(items)


class PyStruct:
    """pure-Python model of struct.Struct for network-order formats of B, H, I and Ns"""

    _SIZES = {"B": 1, "H": 2, "I": 4}

    def __init__(self, fmt):
        self.format = fmt
        if not fmt or fmt[0] != "!":
            raise Inconclusive("struct format %r not modelled" % (fmt,))
        self.fields = []
        body = fmt[1:]
        pos = 0
        for m in re.finditer(r"(\d*)([BHIsx])", body):
            if m.start() != pos:
                raise Inconclusive("struct format %r not modelled" % (fmt,))
            pos = m.end()
            cnt, ch = m.groups()
            if ch == "s":
                self.fields.append(("s", int(cnt or "1")))
            elif ch == "x":
                self.fields.append(("x", int(cnt or "1")))
            else:
                for _ in range(int(cnt or "1")):
                    self.fields.append((ch, self._SIZES[ch]))
        if pos != len(body):
            raise Inconclusive("struct format %r not modelled" % (fmt,))
        self.size = sum(n for _, n in self.fields)
        assert self.size == _struct.calcsize(fmt)
        self._real = _struct.Struct(fmt)

    def pack(self, *vals):
        if all(isinstance(v, (int, bytes, bytearray)) for v in vals):
            return self._real.pack(*vals)
        nvals = len([f for f in self.fields if f[0] != "x"])
        if len(vals) != nvals:
            raise _struct.error("pack expected %d items for packing (got %d)" % (nvals, len(vals)))
        out = []
        it = iter(vals)
        for (ch, n) in self.fields:
            if ch == "x":
                out.extend([0] * n)
                continue
            v = next(it)
            if ch == "s":
                if not isinstance(v, (bytes, bytearray, SymBytes, SymByteArray)):
                    raise _struct.error("argument for 's' must be a bytes object")
                v = _items(v)
                out.extend(v[:n])
                out.extend([0] * (n - len(v)))
            else:
                if isinstance(v, SymBool):
                    v = Engine.ite(v, 1, 0)
                if isinstance(v, enum.Enum):
                    v = v.value
                if not isinstance(v, (int, SymInt)):
                    raise _struct.error("required argument is not an integer")
                if v < 0 or v >= (1 << (8 * n)):
                    raise _struct.error("argument out of range")
                for k in range(n - 1, -1, -1):
                    out.append((v >> (8 * k)) & 0xFF if _concrete(v) else (v // (256**k)) % 256)
        return mk_bytes(out)

    def unpack(self, buf):
        if isinstance(buf, (bytes, bytearray)):
            return self._real.unpack(buf)
        if len(buf) != self.size:
            raise _struct.error("unpack requires a buffer of %d bytes" % self.size)
        res = []
        pos = 0
        for ch, n in self.fields:
            if ch == "x":
                pass
            elif ch == "s":
                res.append(mk_bytes(buf[pos : pos + n]))
            else:
                v = 0
                for k in range(n):
                    v = v * 256 + buf[pos + k]
                res.append(v)
            pos += n
        return tuple(res)

    def unpack_from(self, buf, offset=0):
        return self.unpack(buf[offset : offset + self.size])


class SymIP:
    """value object standing in for ipaddress.IPv4Address/IPv6Address built from symbolic bytes"""

    __slots__ = ("packed", "version")

    def __init__(self, packed, version):
        self.packed = packed
        self.version = version

    def __eq__(self, o):
        if isinstance(o, SymIP):
            return self.version == o.version and self.packed == o.packed
        if isinstance(o, (ipaddress.IPv4Address, ipaddress.IPv6Address)):
            return self.version == o.version and self.packed == o.packed
        return False

    def __ne__(self, o):
        r = self.__eq__(o)
        return SymBool(z3.Not(r.z)) if isinstance(r, SymBool) else (not r)

    def __hash__(self):
        return hash(bytes(self.packed))

    def __str__(self):
        return "<symip>"

    __repr__ = __str__


def ipv4(x):
    if isinstance(x, SymBytes):
        if len(x) != 4:
            raise ipaddress.AddressValueError("wrong length")
        return SymIP(x, 4)
    return ipaddress.IPv4Address(x)


def ipv6(x):
    if isinstance(x, SymBytes):
        if len(x) != 16:
            raise ipaddress.AddressValueError("wrong length")
        return SymIP(x, 6)
    return ipaddress.IPv6Address(x)


class ScanDict(dict):
    """dict whose lookups with a symbolic key scan by equality instead of hashing
    (identical result for int keys; avoids forking over every 16-bit value)"""

    def _scan(self, k):
        for kk in dict.keys(self):
            if k == kk:
                return kk
        return _MISSING

    def get(self, k, default=None):
        if isinstance(k, SymInt):
            kk = self._scan(k)
            return default if kk is _MISSING else dict.__getitem__(self, kk)
        return dict.get(self, k, default)

    def __getitem__(self, k):
        if isinstance(k, SymInt):
            kk = self._scan(k)
            if kk is _MISSING:
                raise KeyError(k)
            return dict.__getitem__(self, kk)
        return dict.__getitem__(self, k)

    def __contains__(self, k):
        if isinstance(k, SymInt):
            return self._scan(k) is not _MISSING
        return dict.__contains__(self, k)


class ScanSet(frozenset):
    def __contains__(self, k):
        if isinstance(k, SymInt):
            for kk in frozenset.__iter__(self):
                if k == kk:
                    return True
            return False
        return frozenset.__contains__(self, k)


_MISSING = object()


def _is_sym_key(x):
    return type(x) is SymInt or type(x) is SymStr or type(x) is SymBytes


def sx_in(x, c):
    """stand-in for  `x in c`: equality scan when x is symbolic and c is a builtin container
    (identical to hashing for ints/bytes; avoids forking over every value of x)"""
    if _is_sym_key(x) and type(c) in (set, frozenset, dict, list, tuple) or (_is_sym_key(x) and isinstance(c, (set, frozenset, dict))):
        for k in c:
            if x == k:
                return True
        return False
    return x in c


def sx_bytes(*a, **kw):
    """stand-in for the builtin bytes(...)"""
    if len(a) == 1 and not kw:
        x = a[0]
        if isinstance(x, SymBytes):
            return x
        if isinstance(x, SymByteArray):
            return mk_bytes(x.items)
        if isinstance(x, (list, tuple)) and any(isinstance(v, SymInt) for v in x):
            out = SymByteArray()
            for v in x:
                out.append(v)
            return mk_bytes(out.items)
    return bytes(*a, **kw)


def sx_int_from_bytes(b, byteorder="big", *, signed=False):
    """stand-in for int.from_bytes"""
    if isinstance(b, (SymBytes, SymByteArray)) and not signed:
        items = list(b.items)
        if byteorder == "little":
            items.reverse()
        v = 0
        for x in items:
            v = v * 256 + x
        return v
    return int.from_bytes(b, byteorder, signed=signed)


def sx_getitem(c, k):
    """stand-in for  c[k]  in load context"""
    if type(k) is SymInt and isinstance(c, dict) and not isinstance(c, ScanDict):
        for kk in c:
            if k == kk:
                return c[kk]
        return c[int(k)]  # missing: let the container decide (KeyError / __missing__)
    return c[k]


def sx_get(obj, *args, **kw):
    """stand-in for  obj.get(...)"""
    if args and type(args[0]) is SymInt and isinstance(obj, dict) and not isinstance(obj, ScanDict) and not kw:
        for kk in obj:
            if args[0] == kk:
                return obj[kk]
        return args[1] if len(args) > 1 else None
    return obj.get(*args, **kw)

# ------------------------------------------------------------------ enum lookup by value
_orig_enum_call = enum.EnumMeta.__call__


def _enum_call(cls, value, *a, **kw):
    if isinstance(value, SymInt) and not a and not kw:
        for m in cls:
            if value == m.value:
                return m
        raise ValueError("%r is not a valid %s" % (value, cls.__qualname__))
    return _orig_enum_call(cls, value, *a, **kw)


def install_enum_model():
    enum.EnumMeta.__call__ = _enum_call


# ------------------------------------------------------------------ functools.lru_cache stand-in
_CACHES = []


def _has_sym(x):
    if isinstance(x, (SymInt, SymBool, SymBytes, SymStr, SymIP)):
        return True
    if isinstance(x, (tuple, list, frozenset)):
        return any(_has_sym(y) for y in x)
    return False


def sx_lru_cache(maxsize=128, typed=False):
    """functools.lru_cache for the lowered modules: same results, but keys are compared
    with == (forking on symbolic equality) instead of being hashed, and every cache is
    emptied at the start of each explored path (no state leaks between paths)"""

    def deco(fn):
        import functools as _ft

        entries = []  # [key, value], most recently used last
        _CACHES.append(entries)

        @_ft.wraps(fn)
        def wrapper(*args, **kw):
            key = (args, tuple(sorted(kw.items())))
            for i, (k, v) in enumerate(entries):
                if len(k[0]) == len(args) and k[1].__len__() == len(key[1]) and bool(_keys_equal(k, key)):
                    entries.append(entries.pop(i))
                    return v
            v = fn(*args, **kw)
            entries.append([key, v])
            if maxsize is not None and len(entries) > maxsize:
                entries.pop(0)
            return v

        wrapper.cache_clear = entries.clear
        wrapper.__wrapped__ = fn
        return wrapper

    if callable(maxsize):  # used as @lru_cache without parentheses
        fn, maxsize = maxsize, 128
        return deco(fn)
    return deco


def _keys_equal(a, b):
    from .engine import _deep_eq

    return _deep_eq(a, b)


def reset_caches():
    for e in _CACHES:
        e.clear()

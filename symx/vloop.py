"""VirtualLoop: asyncio's own BaseEventLoop (call_soon / call_at / _run_once / Task /
sleep are asyncio's code) with the selector and the clock replaced.

time() is an integer tick counter (1 tick = 1 ms), possibly symbolic.  External
events (datagram arrival, API call by the application) are injected as the I/O
batch of a loop iteration chosen by the driver:

  deliver(t, cbs): run every iteration strictly before tick t, advance to t, then
  optionally (a symbolic choice per iteration, only while the loop has pending
  work at t) run iterations *without* the event, finally run one iteration whose
  I/O batch is `cbs` - asyncio processes I/O callbacks before the timers that are
  due in the same iteration and after the callbacks deferred by call_soon in the
  previous one.
"""
from __future__ import annotations

import asyncio
import heapq
import socket
from asyncio import base_events, events

base_events.MAXIMUM_SELECT_TIMEOUT = 10**18
SCALE = 1000  # ticks per second
MAX_DEFER = 3


class Ticks:
    """a duration already expressed in ticks (returned by the random.uniform stand-in)"""

    __slots__ = ("t",)

    def __init__(self, t):
        self.t = t

    def __le__(self, o):
        return self.t <= to_ticks(o)

    def __lt__(self, o):
        return self.t < to_ticks(o)

    def __gt__(self, o):
        return self.t > to_ticks(o)

    def __ge__(self, o):
        return self.t >= to_ticks(o)

    def __repr__(self):
        return "<ticks>"


def to_ticks(delay):
    if isinstance(delay, Ticks):
        return delay.t
    if isinstance(delay, float):
        t = round(delay * SCALE)
        if abs(t - delay * SCALE) > 1e-6:
            raise ValueError("delay %r is not a multiple of one tick (1 ms)" % (delay,))
        return t
    return delay * SCALE


class _Selector:
    def __init__(self, loop):
        self.loop = loop

    def select(self, timeout):
        lp = self.loop
        out, lp._inject = lp._inject, []
        return out

    def close(self):
        pass


class LoopIdle(Exception):
    pass


class VirtualLoop(base_events.BaseEventLoop):
    def __init__(self, engine=None):
        super().__init__()
        self.E = engine
        self._vtime = 0
        self._inject = []
        self._selector = _Selector(self)
        self._clock_resolution = 1
        self.exceptions = []
        self.iterations = 0
        self.set_exception_handler(lambda loop, ctx: self.exceptions.append(ctx))
        self._defer_n = 0

    # ---- clock and scheduling
    def time(self):
        return self._vtime

    def call_later(self, delay, callback, *args, context=None):
        if delay is None:
            raise TypeError("delay must not be None")
        return self.call_at(self._vtime + to_ticks(delay), callback, *args, context=context)

    def _process_events(self, event_list):
        for cb in event_list:
            self._ready.append(events.Handle(cb, (), self))

    def _write_to_self(self):
        pass

    async def getaddrinfo(self, host, port, *, family=0, type=0, proto=0, flags=0):
        # numeric resolution without an executor thread; like the real one it completes in
        # a later loop iteration (the caller is suspended once)
        await asyncio.sleep(0)
        return socket.getaddrinfo(host, port, family, type, proto, flags | socket.AI_NUMERICHOST)

    def _run_once(self):
        self.iterations += 1
        if self.iterations > 200000:
            raise RuntimeError("virtual loop: iteration bound exceeded")
        super()._run_once()

    # ---- driver
    def _next_timer(self):
        while self._scheduled and self._scheduled[0]._cancelled:
            h = heapq.heappop(self._scheduled)
            h._scheduled = False
            self._timer_cancelled_count -= 1 if self._timer_cancelled_count > 0 else 0
        return self._scheduled[0]._when if self._scheduled else None

    def _step(self):
        events._set_running_loop(self)
        try:
            self._run_once()
        finally:
            events._set_running_loop(None)

    def _drain(self, until, inclusive):
        """run all iterations whose tick is < until (or <= until when inclusive)"""
        while True:
            if self._ready:
                self._step()
                continue
            w = self._next_timer()
            if w is not None and ((w <= until) if inclusive else (w < until)):
                if w > self._vtime:
                    self._vtime = w
                self._step()
                continue
            break

    def _work_now(self):
        if self._ready:
            return True
        w = self._next_timer()
        return w is not None and bool(w <= self._vtime)

    def deliver(self, t, cbs, name=None, may_defer=True):
        """inject the callbacks `cbs` (one I/O batch) at tick t; see module docstring.
        Returns the number of iterations at tick t that ran before the event."""
        if callable(cbs):
            cbs = [cbs]
        if t > self._vtime:
            self._drain(t, inclusive=False)
            self._vtime = t
        n = 0
        E = self.E
        while may_defer and n < MAX_DEFER and self._work_now():
            self._defer_n += 1
            if E is None or not E.flag("defer%d" % self._defer_n if name is None else "defer_%s_%d" % (name, n)):
                break
            self._step()
            n += 1
        self._inject.extend(cbs)
        self._step()
        return n

    def call(self, fn, *a, **kw):
        """run fn as if from a callback of the loop (running-loop context set), no iteration"""
        events._set_running_loop(self)
        try:
            return fn(*a, **kw)
        finally:
            events._set_running_loop(None)

    def settle(self, until=None):
        """run until idle; with `until`: everything due up to and including that tick"""
        if until is None:
            while self._ready:
                self._step()
            return
        self._drain(until, inclusive=True)
        if until > self._vtime:
            self._vtime = until

    def shutdown(self):
        """cancel every task, let the cancellations run, close (path isolation)"""
        events._set_running_loop(self)
        try:
            for tk in asyncio.all_tasks(self):
                tk.cancel()
            for _ in range(100):
                if not self._ready:
                    break
                self._run_once()
        except BaseException:
            pass
        finally:
            events._set_running_loop(None)
        self._ready.clear()
        self._scheduled.clear()
        try:
            self.close()
        except BaseException:
            pass


class Script:
    """delivers a sequence of external events at non-decreasing ticks.  Consecutive
    events at the same tick may share one I/O batch (same loop iteration, script
    order) - a symbolic choice per event - or arrive in separate iterations."""

    def __init__(self, loop, E):
        self.loop, self.E = loop, E
        self.batch = []
        self.t = None
        self.name = None

    def at(self, t, cb, name, joinable=True):
        if self.batch and joinable:
            if t == self.t and self.E.flag("join_%s" % name):
                self.batch.append(cb)
                return True
        self.flush()
        self.t, self.batch, self.name = t, [cb], name
        return False

    def flush(self):
        if self.batch:
            batch, self.batch = self.batch, []
            self.loop.deliver(self.t, batch, name=self.name)

    def finish(self, horizon=2**62):
        self.flush()
        self.loop._drain(horizon, inclusive=True)

"""Runs one property check: cases -> worker pool (symbolic DFS per case) -> concrete
validation of sampled paths and of every counterexample on the unlowered modules
-> known-findings triage -> evidence file -> exit code.

exit 0  property held on everything explored (KNOWN-FINDING lines possible)
exit 1  VIOLATION (reproduced on the unmodified modules, not a listed finding)
exit 2  inconclusive (solver unknown, watchdog, engine error, non-reproducing
        counterexample, vacuity guard) - never reported as success or violation
"""
from __future__ import annotations

import hashlib
import importlib
import json
import multiprocessing as mp
import os
import subprocess
import sys
import time
import traceback

ROOT = os.path.dirname(os.path.dirname(os.path.abspath(__file__)))
EVID = os.environ.get("VERIF_EVIDENCE_DIR") or os.path.join(ROOT, "evidence")
REPLAYS = os.path.join(EVID, "replays")

EXIT_OK, EXIT_VIOLATION, EXIT_INCONCLUSIVE = 0, 1, 2
ESCAPE_LABEL = "no undocumented exception escapes a library call made by the harness"


def raised_in_repo(exc, src):
    """the innermost frames of the traceback: raised by repository code (or by the stdlib
    on its behalf), not by a proxy / engine module"""
    tb = exc.__traceback__
    files = []
    while tb is not None:
        files.append(tb.tb_frame.f_code.co_filename)
        tb = tb.tb_next
    here = os.path.dirname(os.path.abspath(__file__))
    last_repo = max([i for i, f in enumerate(files) if f.startswith(src)] or [-1])
    if last_repo < 0:
        return False
    return not any(f.startswith(here) for f in files[last_repo + 1 :])


WIRE_LABEL = "bytes produced by the code under test follow the SOME/IP / SOME/IP-SD layout as read by the independent reader"

_SYM = {}


def harness_module(prop):
    return importlib.import_module("harness." + prop.lower())


class Mods:
    """namespace of the loaded repository modules handed to every scenario"""

    def __init__(self, pkg):
        self.pkg = pkg
        self.header = pkg.header
        self.config = pkg.config
        self.sd = pkg.sd
        self.service = pkg.service
        self.utils = pkg.utils
        self.mode = pkg.__verif_mode__


def _sym_mods():
    if "m" not in _SYM:
        import logging

        from . import loader

        pkg = loader.load_symbolic()
        _SYM["m"] = Mods(pkg)
        _install_log_guard(logging)
    return _SYM["m"]


class _LogGuard:
    """handler on the 'someip' logger tree: never formats (proxies in args), records
    exceptions that were swallowed by the repository's log_exceptions decorator"""

    level = 0
    records = []

    def handle(self, record):
        if record.exc_info and record.exc_info[1] is not None:
            _LogGuard.records.append(record.exc_info[1])
        return True


def _install_log_guard(logging):
    lg = logging.getLogger("someip")
    lg.handlers[:] = [_LogGuard()]
    lg.propagate = False
    lg.setLevel(logging.ERROR)
    import warnings

    warnings.simplefilter("ignore")


def _profile_functions(fn, E, src):
    seen = set()

    def prof(frame, event, arg):
        if event == "call":
            co = frame.f_code
            if co.co_filename.startswith(src):
                seen.add("%s:%s" % (os.path.basename(co.co_filename), co.co_qualname))

    sys.setprofile(prof)
    try:
        E.explore(fn, max_paths=1)
    finally:
        sys.setprofile(None)
    return sorted(seen)


def _worker_init():
    # a worker stuck inside the solver must die on terminate(): default SIGTERM action
    import signal

    signal.signal(signal.SIGTERM, signal.SIG_DFL)


def _work(job):
    """explore one case symbolically (runs in a pool process)"""
    prop, idx, case, seed, opts = job
    t0 = time.time()
    out = {"idx": idx, "case": case, "ok": False}
    try:
        from . import engine as eng
        from . import loader

        M = _sym_mods()
        hm = harness_module(prop)
        fn0 = hm.SCENARIOS[case["h"]]

        from oracle.wire import WireError

        def fn(E):
            _LogGuard.records.clear()
            loader.reset_state()
            try:
                fn0(E, M, case)
            except WireError as exc:
                # the independent reader rejected bytes the code under test produced
                E.require(False, WIRE_LABEL, {"error": str(exc)})
            except Exception as exc:  # noqa: BLE001
                if not raised_in_repo(exc, loader.src_dir()):
                    raise
                # an exception nobody documents left a library call the harness made; it
                # counts only if the concrete re-run on the unlowered modules raises too
                E.require(False, ESCAPE_LABEL, {"exception": repr(exc)[:300]})
            if E.symbolic and not E.dead:
                for exc in _LogGuard.records:
                    if isinstance(exc, (TypeError, AttributeError, NotImplementedError)) and "ym" in repr(exc):
                        E.proxy_errors.append(repr(exc))

        if opts.get("profile"):
            Ep = eng.Engine(seed=seed)
            Ep.keep_pcs = False
            out["functions"] = _profile_functions(fn, Ep, loader.src_dir())
        if opts.get("twin"):
            Et = eng.Engine(seed=seed)
            Et.keep_pcs = False
            Et.want_samples = 0
            Et.twin = True
            _twin(Et, fn)
            out["twin_violated"] = bool(Et.violations)
        E = eng.Engine(seed=seed)
        E.keep_pcs = opts.get("certificate", True)
        E.want_samples = opts.get("samples", 2)
        E.export_every = opts.get("export_every", 0)
        pfx = opts.get("prefix")
        complete = E.explore(fn, deadline=opts.get("deadline"), max_paths=opts.get("max_paths"), prefix=pfx, frozen=opts.get("frozen", 0), pending_v=opts.get("pending_v", False))
        out["delegated"] = E.delegated
        cert = None
        if complete and E.keep_pcs and E.paths <= opts.get("cert_max_paths", 5000):
            cert = E.certificate()
        out.update(
            ok=True,
            complete=complete,
            paths=E.paths,
            infeasible=E.infeasible,
            decisions=E.decisions,
            checks=E.checks,
            solver_time=E.solver_time,
            obligations=E.obligations,
            discharged=E.discharged,
            reached=E.reached,
            samples=E.samples,
            certificate=cert,
            proxy_errors=E.proxy_errors[:5],
            exported=E.exported,
            violations=[{"label": v.label, "values": v.values, "detail": v.detail} for v in E.violations],
            viol_counts=E._viol_count,
        )
    except eng.Inconclusive as e:  # noqa: F821
        out["error"] = "inconclusive: %s" % (e.reason,)
    except BaseException as e:  # engine error
        out["error"] = "engine error: %r\n%s" % (e, traceback.format_exc(limit=12))
    out["wall"] = time.time() - t0
    out["t0"] = t0
    out["pid"] = os.getpid()
    return out


def _twin(E, fn):
    """vacuity guard: with every assertion forced to fail, the harness must report a
    violation within its first paths (i.e. some assertion is reachable)"""
    real = E.require

    def require(cond, label, detail=None):
        return real(False, "twin:" + label, None)

    E.require = require
    E.max_viol = 1
    E.stop_on_violation = True
    E.explore(fn, max_paths=300, deadline=time.time() + 30)


def _validate_batch(items, timeout):
    """run `items` concretely on the unlowered modules in a separate interpreter"""
    if not items:
        return []
    os.makedirs(REPLAYS, exist_ok=True)
    path = os.path.join(REPLAYS, ".batch-%d.json" % os.getpid())
    with open(path, "w") as f:
        json.dump(items, f)
    try:
        p = subprocess.run(
            [sys.executable, "-m", "symx.validate", path], cwd=ROOT, capture_output=True, text=True, timeout=timeout
        )
        if p.returncode != 0:
            raise RuntimeError("validator failed: %s" % p.stderr[-2000:])
        return json.loads(p.stdout.strip().splitlines()[-1])
    finally:
        try:
            os.unlink(path)
        except OSError:
            pass


def _load_known():
    p = os.path.join(ROOT, "known_findings.json")
    if not os.path.exists(p):
        return []
    with open(p) as f:
        return json.load(f).get("findings", [])


def _match_known(prop, v, known):
    for k in known:
        if k.get("status") != "known" or k.get("property") != prop:
            continue
        if k.get("harness") and k["harness"] != v["case"].get("h"):
            continue
        if k.get("label") and k["label"] != v["label"]:
            continue
        pred = k.get("predicate")
        if pred:
            try:
                if not eval(pred, {"__builtins__": {"any": any, "all": all, "len": len, "str": str, "int": int, "abs": abs, "min": min, "max": max, "isinstance": isinstance, "list": list, "dict": dict}}, {"case": v["case"], "values": v["values"], "detail": v.get("detail"), "label": v["label"]}):
                    continue
            except Exception:
                continue
        return k
    return None


def run(prop, tier, seed, argv_opts=None):
    t_start = time.time()
    opts = dict(argv_opts or {})
    sys.path.insert(0, ROOT)
    from . import loader

    hm = harness_module(prop)
    cases = hm.cases(tier, seed)
    bounds = hm.bounds(tier)
    budget = hm.BUDGET_S[tier] if hasattr(hm, "BUDGET_S") else (600 if tier == "quick" else 3600)
    budget = int(os.environ.get("VERIF_BUDGET_S", budget))
    deadline = t_start + budget
    digest = loader.source_digest()
    nproc = int(os.environ.get("VERIF_JOBS", min(16, os.cpu_count() or 4)))

    seen_h = set()
    jobs = []
    base = {
        "deadline": deadline,
        "samples": 1 if len(cases) > 8 else 2,
        "certificate": True,
        "cert_max_paths": 5000,
        "export_every": 23 if tier == "quick" else 101,
    }
    nosplit = bool(os.environ.get("VERIF_NOSPLIT"))

    def path_budget(outstanding):
        # small budgets while the pool is hungry (fan out quickly), larger ones later
        if nosplit:
            return None
        if outstanding < 2 * nproc:
            return 1
        if outstanding < 6 * nproc:
            return 10
        return 250

    per_h = {}
    for c in cases:
        per_h[c["h"]] = per_h.get(c["h"], 0) + 1
    idx_h = {}
    for i, c in enumerate(cases):
        o = dict(base)
        k = idx_h.get(c["h"], 0)
        idx_h[c["h"]] = k + 1
        # functions entered are recorded on one path of ~24 cases spread over each scenario
        if k % max(1, per_h[c["h"]] // 24) == 0:
            o["profile"] = True
        if c["h"] not in seen_h:
            seen_h.add(c["h"])
            o["twin"] = True
        o["max_paths"] = path_budget(len(cases))
        jobs.append((prop, i, c, seed, o))
    # heavy cases first
    jobs.sort(key=lambda j: -j[2].get("_w", 1))
    n_jobs_total = len(jobs)

    results = []
    errors = []
    ctx = mp.get_context("fork")
    pool = ctx.Pool(nproc, initializer=_worker_init)
    try:
        pending = [pool.apply_async(_work, (j,)) for j in jobs]
        while pending:
            if time.time() > deadline + 30:
                errors.append("watchdog: budget of %d s exceeded" % budget)
                break
            still = []
            progressed = False
            for ar in pending:
                if not ar.ready():
                    still.append(ar)
                    continue
                progressed = True
                r = ar.get()
                results.append(r)
                if r.get("ok") and r.get("delegated"):
                    for d in r["delegated"]:
                        o = dict(base)
                        o.update(d)
                        o["samples"] = 1
                        o["max_paths"] = path_budget(len(pending) + len(still))
                        n_jobs_total += 1
                        still.append(pool.apply_async(_work, ((prop, r["idx"], r["case"], seed, o),)))
                if os.environ.get("VERIF_VERBOSE"):
                    print("  job %d/%d t0=%.2f pid=%d %s paths=%s wall=%.2f %s%s" % (len(results), n_jobs_total, r.get("t0",0)-t_start, r.get("pid",0), json.dumps({k: v for k, v in r["case"].items() if not k.startswith("_")})[:100], r.get("paths"), r["wall"], "delegated=%d " % len(r["delegated"]) if r.get("delegated") else "", r.get("error", "")), file=sys.stderr, flush=True)
            pending = still
            if not progressed:
                time.sleep(0.02)
    finally:
        pool.terminate()
        pool.join()

    # ---------------------------------------------------------------- aggregate
    agg = dict(paths=0, decisions=0, checks=0, solver_time=0.0, obligations=0, discharged=0, infeasible=0)
    reached = {}
    functions = set()
    samples = []
    violations = []
    twins = {}
    cert_checked = cert_unsat = 0
    exported = []
    incomplete = 0
    for r in results:
        if not r.get("ok"):
            errors.append("case %s: %s" % (json.dumps(r["case"])[:200], r.get("error")))
            continue
        for k in agg:
            agg[k] += r.get(k, 0)
        for k, v in r["reached"].items():
            reached[k] = reached.get(k, 0) + v
        functions.update(r.get("functions", []))
        if not r["complete"]:
            incomplete += 1
            errors.append("case %s: exploration not exhausted within the budget" % json.dumps(r["case"])[:200])
        if r.get("certificate") is not None:
            cert_checked += 1
            if r["certificate"] == "unsat":
                cert_unsat += 1
            else:
                errors.append("coverage certificate %s for case %s" % (r["certificate"], json.dumps(r["case"])[:200]))
        if "twin_violated" in r:
            twins[r["case"]["h"]] = r["twin_violated"]
            if not r["twin_violated"]:
                errors.append("vacuity twin of %s did not reach an assertion" % r["case"]["h"])
        if r.get("proxy_errors"):
            errors.append("proxy type errors swallowed by the code under test: %s" % r["proxy_errors"][:2])
        for s in r["samples"]:
            samples.append({"case": r["case"], **s})
        for v in r["violations"]:
            violations.append({"case": r["case"], **v})
        exported.extend(r.get("exported", []))
    if len(results) < n_jobs_total and not errors:
        errors.append("only %d of %d jobs finished" % (len(results), n_jobs_total))
    for h in seen_h:
        for lab in getattr(hm, "REACH", {}).get(h, []):
            if not reached.get(lab):
                errors.append("reachability label %r of %s was reached on no path" % (lab, h))

    # ---------------------------------------------------------------- concrete validation
    import random

    rnd = random.Random(seed)
    n_val = int(os.environ.get("VERIF_VALIDATE", 48 if tier == "quick" else 400))
    chosen = samples if len(samples) <= n_val else rnd.sample(samples, n_val)
    items = [{"prop": prop, "kind": "sample", "case": s["case"], "values": s["inputs"], "observed": s["observed"]} for s in chosen]
    # one counterexample per (harness, label), more only when signatures differ in detail
    vio_sel = []
    seen_sig = {}
    for v in violations:
        sig = (v["case"]["h"], v["label"])
        seen_sig[sig] = seen_sig.get(sig, 0) + 1
        if seen_sig[sig] <= 12:
            vio_sel.append(v)
    items += [{"prop": prop, "kind": "violation", "case": v["case"], "values": v["values"], "label": v["label"]} for v in vio_sel]
    validated = 0
    val_res = []
    try:
        val_res = _validate_batch(items, timeout=max(120, budget))
    except Exception as e:
        errors.append("concrete validation failed: %r" % (e,))
    confirmed = []
    for it, res in zip(items, val_res):
        if it["kind"] == "sample":
            if res.get("status") == "ok" and res.get("observed") == it["observed"]:
                validated += 1
            else:
                errors.append("concrete run disagrees with symbolic path: case=%s inputs=%s -> %s (expected %s)" % (json.dumps(it["case"])[:150], json.dumps(it["values"])[:300], json.dumps(res)[:300], json.dumps(it["observed"])[:300]))
        else:
            if res.get("status") == "violation" and res.get("label") == it["label"]:
                confirmed.append((it, res))
            else:
                errors.append("counterexample did not reproduce on the unmodified modules: %s %s -> %s" % (it["label"], json.dumps(it["values"])[:300], json.dumps(res)[:300]))

    # ---------------------------------------------------------------- second solver
    second = {"queries": 0, "agree": 0}
    n2 = 12 if tier == "quick" else 60
    if exported:
        second = _second_solver(rnd.sample(exported, min(n2, len(exported))), errors)

    # ---------------------------------------------------------------- triage
    known = _load_known()
    known_hits = {}
    new_violations = []
    os.makedirs(REPLAYS, exist_ok=True)
    for it, res in confirmed:
        v = {"case": it["case"], "values": it["values"], "label": it["label"], "detail": res.get("detail")}
        k = _match_known(prop, v, known)
        if k:
            known_hits.setdefault(k["id"], (k, v))
        else:
            new_violations.append(v)
    lines = []
    for kid, (k, v) in sorted(known_hits.items()):
        lines.append("KNOWN-FINDING: property=%s %s: %s" % (prop, kid, k["what"]))
    replay_paths = []
    seen_new = set()
    for v in new_violations:
        sig = (v["case"]["h"], v["label"])
        if sig in seen_new:
            continue
        seen_new.add(sig)
        body = {"property": prop, "harness": v["case"]["h"], "case": v["case"], "values": v["values"], "label": v["label"], "detail": v["detail"], "tier": tier, "seed": seed, "source_digest": digest}
        hname = hashlib.sha1(json.dumps(body, sort_keys=True).encode()).hexdigest()[:10]
        rp = os.path.join(REPLAYS, "%s-%s.json" % (prop, hname))
        with open(rp, "w") as f:
            json.dump(body, f, indent=1, sort_keys=True)
        replay_paths.append((v, rp))

    wall = time.time() - t_start
    exhaustive = not errors and incomplete == 0 and len(results) == n_jobs_total
    ev = {
        "property_id": prop,
        "tier": tier,
        "seed": seed,
        "level": "model_checking",
        "coverage": {
            "states": agg["paths"],
            "transitions": agg["decisions"],
            "traces_validated_against_impl": validated,
            "samples": [{"case": {k: v for k, v in s["case"].items() if not k.startswith("_")}, "inputs": s["inputs"], "observed": s["observed"]} for s in (samples[:3] + samples[-2:] if len(samples) > 5 else samples)],
            "exhaustive": exhaustive,
            "explanation": "states = feasible symbolic paths explored to completion (each stands for all assignments satisfying its path condition); transitions = solver-decided branch/value decisions; traces_validated = sampled path models re-run with plain ints on the unlowered modules with identical observations",
            "cases": len(jobs),
            "jobs": n_jobs_total,
            "jobs_finished": len(results),
            "bounds": bounds,
            "functions_encoded": sorted(functions),
            "solver": "z3 %s" % _z3_version(),
            "solver_queries": agg["checks"],
            "solver_time_s": round(agg["solver_time"], 2),
            "obligations": agg["obligations"],
            "discharged": agg["discharged"],
            "infeasible_prefixes_pruned": agg["infeasible"],
            "reach_labels": reached,
            "vacuity_twins": twins,
            "coverage_certificate": {"cases_checked": cert_checked, "unsat": cert_unsat},
            "second_solver": second,
            "counterexamples_found": len(violations),
            "counterexamples_reproduced": len(confirmed),
            "known_findings_seen": sorted(known_hits),
            "stubs": getattr(hm, "STUBS", []),
            "source_digest": digest,
            "repo": loader.repo_root(),
            "inconclusive_reasons": errors[:20],
        },
        "assumptions": getattr(hm, "ASSUMPTIONS", []),
        "wall_s": round(wall, 2),
        "violations": len(replay_paths),
    }
    os.makedirs(EVID, exist_ok=True)
    with open(os.path.join(EVID, "%s.json" % prop), "w") as f:
        json.dump(ev, f, indent=1, sort_keys=True)
        f.write("\n")

    for ln in lines:
        print(ln)
    print("%s tier=%s cases=%d paths=%d decisions=%d queries=%d solver=%.1fs validated=%d counterexamples=%d wall=%.1fs" % (prop, tier, len(jobs), agg["paths"], agg["decisions"], agg["checks"], agg["solver_time"], validated, len(violations), wall))
    if replay_paths:
        for v, rp in replay_paths:
            print("VIOLATION property=%s replay=%s" % (prop, rp))
            print("  harness=%s assertion=%r detail=%s" % (v["case"]["h"], v["label"], json.dumps(v["detail"])[:600]))
        return EXIT_VIOLATION
    if errors:
        for e in errors[:20]:
            print("INCONCLUSIVE: %s" % e)
        return EXIT_INCONCLUSIVE
    return EXIT_OK


def _z3_version():
    import z3

    return z3.get_version_string()


def _second_solver(queries, errors):
    """re-decide a sample of the queries z3 answered `unsat` with cvc5"""
    out = {"solver": "cvc5", "queries": 0, "agree": 0, "unknown": 0}
    try:
        import cvc5  # noqa: F401
    except Exception as e:  # pragma: no cover
        out["error"] = repr(e)
        return out
    import cvc5

    for q in queries:
        try:
            slv = cvc5.Solver()
            slv.setOption("tlimit-per", "20000")
            slv.setLogic("ALL")
            ip = cvc5.InputParser(slv)
            ip.setStringInput(cvc5.InputLanguage.SMT_LIB_2_6, q, "q")
            sm = ip.getSymbolManager()
            res = None
            while True:
                cmd = ip.nextCommand()
                if cmd.isNull():
                    break
                o = cmd.invoke(slv, sm)
                if isinstance(o, str) and o.strip() in ("sat", "unsat", "unknown"):
                    res = o.strip()
            out["queries"] += 1
            if res == "unsat":
                out["agree"] += 1
            elif res == "sat":
                errors.append("second solver (cvc5) answers sat on a query z3 answered unsat")
            else:
                out["unknown"] += 1
        except Exception as e:
            out["unknown"] += 1
            out.setdefault("errors", []).append(repr(e)[:200])
    return out


def replay(path):
    """re-run a recorded counterexample on the unmodified modules, print what happens"""
    sys.path.insert(0, ROOT)
    with open(path) as f:
        body = json.load(f)
    from . import validate

    res = validate.run_item({"prop": body["property"], "kind": "violation", "case": body["case"], "values": body["values"], "label": body["label"]}, verbose=True)
    print(json.dumps(res, indent=1))
    return EXIT_VIOLATION if res.get("status") == "violation" else EXIT_OK

"""Reference model of TTL-governed entries (offers, subscriptions): which notifications a
listener must see per entry, with virtual timestamps.

Plain Python over (possibly symbolic) integers; comparisons fork in the symbolic
engine exactly like the timer comparisons inside the event loop do.

Per entry (key) the expected notification stream is a list of items
    ("new", t) | ("stopped", t) | ("tie", d, t)
where ("tie", d, t) stands for a refresh that arrived at the very tick of the
deadline d == t: both outcomes C09 names are accepted - no notification at all, or
("stopped", d) followed by ("new", t).
"""
from __future__ import annotations


class TTLModel:
    def __init__(self, forever, scale=1000):
        self.forever = forever
        self.scale = scale
        self.live = {}  # key -> deadline (int/sym) or None (never expires)
        self.streams = {}  # key -> [items]

    def _emit(self, key, item):
        self.streams.setdefault(key, []).append(item)

    def advance(self, t, concerned=()):
        """time moves to t (an operation is about to be applied at t); expire everything
        due strictly before t.  Entries due exactly at t stay pending: a later operation
        at the same tick may still tie with them; they expire when time moves on.
        Returns the set of concerned keys whose deadline equals t."""
        ties = set()
        for key in list(self.live):
            d = self.live[key]
            if d is None:
                continue
            if d < t:
                self._emit(key, ("stopped", d))
                del self.live[key]
            elif d == t and key in concerned:
                ties.add(key)
        return ties

    def refresh(self, t, key, ttl, accepted=True):
        """an offer/subscribe for `key` with `ttl` seconds handled at tick t"""
        ties = self.advance(t, {key})
        if not accepted:
            # a rejected *new* entry is not recorded; a refresh of a live one never asks
            if key in self.live and key not in ties:
                pass
            else:
                if key in ties:
                    self._emit(key, ("stopped", self.live[key]))
                    del self.live[key]
                return
        if key in ties:
            self._emit(key, ("tie", self.live[key], t))
        elif key not in self.live:
            self._emit(key, ("new", t))
        if ttl == self.forever:
            self.live[key] = None
        else:
            self.live[key] = t + ttl * self.scale

    def stop(self, t, keys):
        """explicit removal (stop entry, reboot of the address, connection loss) at t"""
        keys = set(keys)
        self.advance(t, keys)
        for key in keys:
            if key in self.live:
                self._emit(key, ("stopped", t))
                del self.live[key]

    def finish(self):
        """run to the end of time"""
        for key in list(self.live):
            d = self.live[key]
            if d is not None:
                self._emit(key, ("stopped", d))
                del self.live[key]

    def is_live(self, key):
        return key in self.live


def alternatives(stream):
    """all concrete notification sequences a stream with tie items allows"""
    outs = [[]]
    for it in stream:
        if it[0] == "tie":
            _, d, t = it
            outs = [o + x for o in outs for x in ([], [("stopped", d), ("new", t)])]
        else:
            outs = [o + [it] for o in outs]
    return outs


def match(E, actual, stream):
    """condition: the actual [(kind, time)] sequence is one of the allowed ones"""
    conds = []
    for alt in alternatives(stream):
        if len(alt) != len(actual):
            continue
        if any(a[0] != b[0] for a, b in zip(actual, alt)):
            continue
        conds.append(E.And(*[a[1] == b[1] for a, b in zip(actual, alt)]))
    return E.Or(*conds) if conds else False

"""Independent SOME/IP and SOME/IP-SD wire reader/writer.

Written from the layout in the AUTOSAR SOME/IP (PRS_SOMEIP) and SOME/IP-SD
(PRS_SOMEIPSD) protocol specifications, *not* from the repository's code; uses
integer arithmetic only so that it works on concrete and on symbolic bytes.

SOME/IP header (16 bytes, big endian):
  service id(2) method id(2) length(4) client id(2) session id(2)
  protocol version(1) interface version(1) message type(1) return code(1)
  payload(length - 8)
SD payload:
  flags(1: 0x80 reboot, 0x40 unicast) reserved(3) entries length(4) entries
  options length(4) options
SD entry (16 bytes):
  type(1) index1(1) index2(1) #opt1(4 bits) #opt2(4 bits) service(2) instance(2)
  major(1) ttl(3)  then  minor(4)  |  reserved(12 bits) counter(4 bits) eventgroup(2)
SD option:
  length(2, counts the bytes after the type byte) type(1) reserved(1) data(length-1)
"""
from __future__ import annotations

MESSAGE_TYPES = (0x00, 0x01, 0x02, 0x40, 0x41, 0x42, 0x80, 0x81, 0xC0, 0xC1)
RETURN_CODES = tuple(range(0x00, 0x0B))
T_FIND, T_OFFER, T_SUBSCRIBE, T_SUBSCRIBE_ACK = 0, 1, 6, 7
ENTRY_TYPES = (T_FIND, T_OFFER, T_SUBSCRIBE, T_SUBSCRIBE_ACK)
SD_SERVICE, SD_METHOD = 0xFFFF, 0x8100
MT_NOTIFICATION = 0x02

OPT_CONFIG, OPT_LOADBAL = 0x01, 0x02
OPT_V4_ENDPOINT, OPT_V6_ENDPOINT = 0x04, 0x06
OPT_V4_MULTICAST, OPT_V6_MULTICAST = 0x14, 0x16
OPT_V4_SD_ENDPOINT, OPT_V6_SD_ENDPOINT = 0x24, 0x26
IPV4_OPTS = (OPT_V4_ENDPOINT, OPT_V4_MULTICAST, OPT_V4_SD_ENDPOINT)
IPV6_OPTS = (OPT_V6_ENDPOINT, OPT_V6_MULTICAST, OPT_V6_SD_ENDPOINT)
PROTO_TCP, PROTO_UDP = 6, 17


class WireError(Exception):
    pass


def be(x, n):
    """n big-endian bytes of the non-negative integer x (concrete or symbolic)"""
    return [(x // (256 ** k)) % 256 for k in range(n - 1, -1, -1)]


def uint(b, off, n):
    v = 0
    for k in range(n):
        v = v * 256 + b[off + k]
    return v


def seq(b):
    return list(b.items) if hasattr(b, "items") and not isinstance(b, dict) else list(b)


# ------------------------------------------------------------------ writers
def someip_bytes(service, method, client, session, iface, mtype, rcode, payload=(), proto=1, length=None):
    payload = seq(payload)
    if length is None:
        length = len(payload) + 8
    return be(service, 2) + be(method, 2) + be(length, 4) + be(client, 2) + be(session, 2) + [proto, iface, mtype, rcode] + payload


def sd_entry_bytes(etype, idx1, idx2, n1, n2, service, instance, major, ttl, last32):
    return [etype, idx1, idx2, n1 * 16 + n2] + be(service, 2) + be(instance, 2) + [major] + be(ttl, 3) + be(last32, 4)


def eventgroup_word(counter, eventgroup, reserved=0):
    return reserved * (1 << 20) + counter * (1 << 16) + eventgroup


def sd_option_bytes(otype, data, reserved=0):
    data = seq(data)
    return be(len(data) + 1, 2) + [otype, reserved] + data


def ip_option_data(addr_bytes, proto, port, reserved=0):
    return seq(addr_bytes) + [reserved, proto] + be(port, 2)


def sd_payload(flags, entries, options, reserved=(0, 0, 0)):
    eb = [x for e in entries for x in e]
    ob = [x for o in options for x in o]
    return [flags] + list(reserved) + be(len(eb), 4) + eb + be(len(ob), 4) + ob


def sd_message(session, flags, entries, options, client=0):
    return someip_bytes(SD_SERVICE, SD_METHOD, client, session, 1, MT_NOTIFICATION, 0, sd_payload(flags, entries, options))


# ------------------------------------------------------------------ readers
def parse_someip(buf):
    """-> (fields, rest); raises WireError for anything the layout does not allow"""
    b = seq(buf)
    if len(b) < 16:
        raise WireError("short header")
    f = {
        "service": uint(b, 0, 2),
        "method": uint(b, 2, 2),
        "length": uint(b, 4, 4),
        "client": uint(b, 8, 2),
        "session": uint(b, 10, 2),
        "proto": b[12],
        "iface": b[13],
        "mtype": b[14],
        "rcode": b[15],
    }
    if f["proto"] != 1:
        raise WireError("protocol version")
    if not any(f["mtype"] == m for m in MESSAGE_TYPES):
        raise WireError("message type")
    if not any(f["rcode"] == m for m in RETURN_CODES):
        raise WireError("return code")
    if f["length"] < 8:
        raise WireError("length < 8")
    if len(b) - 16 < f["length"] - 8:
        raise WireError("truncated")
    n = int(f["length"]) - 8
    f["payload"] = b[16 : 16 + n]
    return f, b[16 + n :]


def parse_someip_all(buf):
    """every message of a datagram, in order (raises at the first bad one)"""
    out = []
    b = seq(buf)
    while b:
        f, b = parse_someip(b)
        out.append(f)
    return out


def parse_entry(b, off):
    e = {
        "type": b[off],
        "idx1": b[off + 1],
        "idx2": b[off + 2],
        "n1": b[off + 3] // 16,
        "n2": b[off + 3] % 16,
        "service": uint(b, off + 4, 2),
        "instance": uint(b, off + 6, 2),
        "major": b[off + 8],
        "ttl": uint(b, off + 9, 3),
        "last32": uint(b, off + 12, 4),
    }
    e["minor"] = e["last32"]
    e["eventgroup"] = e["last32"] % 65536
    e["counter"] = (e["last32"] // 65536) % 16
    e["reserved12"] = e["last32"] // (1 << 20)
    return e


def parse_sd(payload):
    """-> dict(flags, reboot, unicast, entries, options, rest); WireError when the
    layout is violated (lengths, entry types, option indexes, option contents)"""
    b = seq(payload)
    if len(b) < 12:
        raise WireError("short sd header")
    flags = b[0]
    elen = uint(b, 4, 4)
    if len(b) - 8 < elen + 4:
        raise WireError("entries length")
    elen = int(elen)
    if elen % 16:
        raise WireError("entries length not a multiple of 16")
    olen = uint(b, 8 + elen, 4)
    if len(b) - 12 - elen < olen:
        raise WireError("options length")
    olen = int(olen)
    opts = []
    pos = 12 + elen
    end = pos + olen
    while pos < end:
        if end - pos < 3:
            raise WireError("option header")
        ln = uint(b, pos, 2)
        if end - pos - 3 < ln:
            raise WireError("option length")
        ln = int(ln)
        opts.append({"type": b[pos + 2], "data": b[pos + 3 : pos + 3 + ln]})
        pos += 3 + ln
    entries = [parse_entry(b, 8 + 16 * i) for i in range(elen // 16)]
    for e in entries:
        if not any(e["type"] == t for t in ENTRY_TYPES):
            raise WireError("entry type")
        if e["idx1"] + e["n1"] > len(opts) or e["idx2"] + e["n2"] > len(opts):
            raise WireError("option index")
        if (e["type"] == T_SUBSCRIBE or e["type"] == T_SUBSCRIBE_ACK) and e["reserved12"] != 0:
            raise WireError("eventgroup entry reserved bits")
    for o in opts:
        check_option(o)
    return {
        "flags": flags,
        "reboot": (flags // 128) % 2,
        "unicast": (flags // 64) % 2,
        "entries": entries,
        "options": opts,
        "rest": b[end:],
    }


def check_option(o):
    """content rules of the known option types (unknown types are opaque)"""
    t, d = o["type"], o["data"]
    if any(t == x for x in IPV4_OPTS):
        if len(d) != 9:
            raise WireError("ipv4 option length")
    elif any(t == x for x in IPV6_OPTS):
        if len(d) != 21:
            raise WireError("ipv6 option length")
    elif t == OPT_LOADBAL:
        if len(d) != 5:
            raise WireError("load balancing option length")
    elif t == OPT_CONFIG:
        config_items(d)


def config_items(d):
    """[(bytes key, bytes value | None)] of a configuration option's data (incl. reserved byte)"""
    if len(d) < 2:
        raise WireError("config option too short")
    pos = 1
    items = []
    while True:
        if pos >= len(d):
            raise WireError("config option not terminated")
        n = d[pos]
        pos += 1
        if n == 0:
            break
        n = int(n)
        if pos + n > len(d):
            raise WireError("config item too long")
        # every item must be followed by a next-length byte
        if pos + n >= len(d):
            raise WireError("config option not terminated")
        s = d[pos : pos + n]
        pos += n
        k = None
        for i, c in enumerate(s):
            if c == 0x3D:
                k = i
                break
        items.append((s, None) if k is None else (s[:k], s[k + 1 :]))
    return items


def config_non_ascii(d):
    """does any configuration string contain a byte >= 0x80 ?"""
    try:
        items = config_items(d)
    except WireError:
        return False
    return any(c >= 0x80 for k, v in items for c in (list(k) + list(v or [])))


def entry_options(sd, e):
    """the two option runs an entry refers to"""
    i1, n1, i2, n2 = int(e["idx1"]), int(e["n1"]), int(e["idx2"]), int(e["n2"])
    return sd["options"][i1 : i1 + n1], sd["options"][i2 : i2 + n2]


def ip_option_fields(o):
    d = o["data"]
    n = 4 if len(d) == 9 else 16
    return {"addr": d[1 : 1 + n], "proto": d[2 + n], "port": uint(d, 3 + n, 2)}

"""C18 - stream and datagram framing agree under arbitrary segmentation."""
from __future__ import annotations

import asyncio

from oracle import wire

from .c07 import mk
from .common import loop_clean, new_loop

PROPERTY = "C18"
BUDGET_S = {"quick": 900, "thorough": 7200}
STUBS = [
    "asyncio.StreamReader: in the symbolic run a small model (feed_data, feed_eof, readexactly, at_eof: readexactly returns exactly n bytes or raises IncompleteReadError(partial, expected)); every sampled path and every counterexample is re-run on the real asyncio.StreamReader",
    "VirtualLoop; struct/bytes/enum lowering",
]
ASSUMPTIONS = [
    "streams of 0..3 messages with payloads of 0..8 bytes; one message per stream has symbolic header bytes (ids, interface version and declared length free; protocol version / message type / return code from a valid and an undefined value; arbitrary declared length when it is the last message of the stream), the others symbolic ids with a consistent length",
    "chunking: the stream is fed in up to three chunks at solver-chosen cut positions (every position), then EOF - the chunks arriving while the reader waits, or everything buffered before the reader starts, or the last chunk and the EOF in one loop iteration; the stream may end at any position",
    "long messages (payload up to 4096) are exercised concretely on the real StreamReader in the thorough tier (H18L)",
]
REACH = {"H18": ["h18.message", "h18.reject", "h18.incomplete", "h18.clean-end"], "H18L": ["h18.message"]}
LAYOUTS = {"0": [0], "3": [3], "0-3": [0, 3], "8-0": [8, 0], "2-2-1": [2, 2, 1], "empty": []}


def bounds(tier):
    return {"H18": "layouts %s (payload lengths); per layout the symbolic-header message at every index; stream cut short at every position; %s" % (sorted(LAYOUTS), "two symbolic cut positions for streams of at most two messages, else one" if tier == "thorough" else "one symbolic cut position"), "H18L": "thorough only: 0..8 concrete messages with payloads up to 4096 bytes, solver-chosen cuts, real StreamReader"}


def cases(tier, seed):
    out = []
    for name, lens in LAYOUTS.items():
        total = sum(16 + n for n in lens)
        for sym_idx in range(max(1, len(lens))):
            for end in range(total + 1):
                ncuts = 2 if (tier == "thorough" and len(lens) <= 2) else 1
                if tier == "quick" and len(lens) == 3 and end % 2:
                    continue
                modes = ["spread", "prefed", "eof-with-last"] if (len(lens) <= 2 or tier == "thorough") else ["spread"]
                out.append({"h": "H18", "layout": name, "sym": sym_idx, "end": end, "cuts": ncuts, "modes": modes, "_w": 1 + end // 8})
    if tier == "thorough":
        for k, plen in ((1, 4096), (2, 1000), (8, 17), (3, 255)):
            out.append({"h": "H18L", "n": k, "plen": plen, "_w": 4})
    return out


class SymStreamReader:
    """model of asyncio.StreamReader for symbolic content (see STUBS)"""

    def __init__(self, loop):
        self._loop = loop
        self._buf = []
        self._eof = False
        self._waiter = None

    def feed_data(self, data):
        self._buf.extend(list(data.items) if hasattr(data, "items") else list(data))
        self._wake()

    def feed_eof(self):
        self._eof = True
        self._wake()

    def _wake(self):
        w, self._waiter = self._waiter, None
        if w is not None and not w.done():
            w.set_result(None)

    def at_eof(self):
        return self._eof and not self._buf

    async def read(self, n=-1):
        if n == 0:
            return b""
        while not self._buf and not self._eof:
            self._waiter = self._loop.create_future()
            await self._waiter
        if n < 0:
            out, self._buf[:] = self._buf[:], []
        else:
            n = int(n)
            out, self._buf[:] = self._buf[:n], self._buf[n:]
        return mk_sym(out)

    async def readexactly(self, n):
        if n < 0:
            raise ValueError("readexactly size can not be less than zero")
        if n == 0:
            return b""
        while len(self._buf) < n:
            if self._eof:
                partial = self._buf[:]
                self._buf.clear()
                raise asyncio.IncompleteReadError(bytes(int(x) for x in partial) if all(isinstance(x, int) for x in partial) else b"?" * len(partial), n if isinstance(n, int) else None)
            self._waiter = self._loop.create_future()
            await self._waiter
        n = int(n)
        out, self._buf[:] = self._buf[:n], self._buf[n:]
        return mk_sym(out)


def mk_sym(items):
    from symx.symbytes import mk_bytes

    return mk_bytes(items)


def _datagram_view(E, M, raw):
    """what datagram decoding yields from the concatenated bytes: (messages, terminal)"""
    hdr = M.header
    msgs = []
    buf = mk(E, raw)
    idx = 0
    while len(buf):
        try:
            m, buf = hdr.SOMEIPHeader.parse(buf)
        except hdr.IncompleteReadError:
            return msgs, ("incomplete", idx)
        except hdr.ParseError:
            return msgs, ("reject", idx)
        msgs.append(m)
        idx += 1
    return msgs, ("end", idx)


def _run_stream(E, M, loop, chunks, mode="spread"):
    hdr = M.header
    reader = SymStreamReader(loop) if E.symbolic else asyncio.StreamReader(loop=loop)
    got = []
    term = []

    async def consume():
        r = hdr.SOMEIPReader(reader)
        while True:
            try:
                m = await r.read()
            except hdr.IncompleteReadError:
                term.append("incomplete")
                return
            except asyncio.IncompleteReadError as exc:
                term.append("incomplete" if len(exc.partial) else "end")
                return
            except hdr.ParseError:
                term.append("reject")
                return
            except Exception as exc:  # noqa: BLE001 - any other exception type is a finding
                term.append("other:" + type(exc).__name__)
                return
            got.append(m)

    def feed(ch):
        if len(ch):
            reader.feed_data(ch if not isinstance(ch, list) else mk(E, ch))

    if mode == "prefed":
        # everything (and the EOF) is already buffered when the consumer starts
        for ch in chunks:
            feed(ch)
        reader.feed_eof()
        loop.call(lambda: loop.create_task(consume()))
        loop.settle()
        return got, term
    loop.call(lambda: loop.create_task(consume()))
    t = 1
    for k, ch in enumerate(chunks):
        last = k == len(chunks) - 1
        if last and mode == "eof-with-last":
            # the last data and the EOF arrive in the same loop iteration
            loop.deliver(t, [lambda ch=ch: feed(ch), reader.feed_eof], may_defer=False)
            loop.settle()
            return got, term
        loop.deliver(t, lambda ch=ch: feed(ch), may_defer=False)
        loop.settle()
        t += 1
    loop.deliver(t, reader.feed_eof, may_defer=False)
    loop.settle()
    return got, term


def _compare(E, M, got, term, dmsgs, dterm):
    E.observe([len(got), term, dterm[0], dterm[1]])
    E.require(len(term) == 1, "the stream reader terminates with one final status")
    E.require(len(got) == len(dmsgs), "reading message by message yields exactly as many messages as datagram decoding", {"stream": len(got), "datagram": len(dmsgs), "stream_end": term, "datagram_end": list(dterm)})
    for a, b in zip(got, dmsgs):
        E.reach("h18.message")
        E.require(E.eq(a, b), "the stream reader yields the same messages, in the same order")
    kind = dterm[0]
    E.reach({"reject": "h18.reject", "incomplete": "h18.incomplete", "end": "h18.clean-end"}[kind])
    if term:
        E.require(not term[0].startswith("other"), "the stream reader raises only the library's parse error or an incomplete-read error", {"stream": term[0], "datagram": kind})
        # a clean end and an end inside a message both surface as an incomplete-read error
        # from the stream (never as a truncated message); a reject must be a reject
        E.require((term[0] == "reject") == (kind == "reject"), "a header that datagram decoding rejects is rejected by the stream reader at the same message position; a stream that ends (inside a message or between messages) produces an incomplete-read error", {"stream": term[0], "datagram": kind, "index": dterm[1]})


def h18(E, M, case):
    loop = new_loop(E)
    lens = LAYOUTS[case["layout"]]
    raw = []
    for i, n in enumerate(lens):
        payload = [E.int("p%d_%d" % (i, j), 0, 255) for j in range(n)]
        if i == case["sym"]:
            head = [E.int("h%d_%d" % (i, j), 0, 255) for j in range(16)]
            # protocol version, message type and return code from {valid, valid, undefined}
            # (the full byte ranges of these three fields are C01/H01b's subject)
            E.assume(E.And(E.Or(head[12] == 1, head[12] == 2), E.Or(head[14] == 0x00, head[14] == 0x80, head[14] == 0x03), E.Or(head[15] == 0, head[15] == 0x0B)))
            if i < len(lens) - 1:
                # not the last message: keep the declared length consistent so that a
                # mis-framed tail does not multiply the paths (arbitrary lengths are
                # covered when the symbolic message is the last one)
                head[4:8] = wire.be(n + 8, 4)
            raw += head + payload
        else:
            raw += wire.someip_bytes(E.int("svc%d" % i, 0, 0xFFFF), E.int("mth%d" % i, 0, 0xFFFF), 1, 2, 3, 0x00 if i % 2 else 0x80, 0, payload)
    raw = raw[: case["end"]]
    L = len(raw)
    cuts = sorted(E.choice("cut%d" % k, L + 1) for k in range(case["cuts"])) if L else []
    bounds_ = [0] + cuts + [L]
    chunks = [raw[a:b] for a, b in zip(bounds_, bounds_[1:])]
    got, term = _run_stream(E, M, loop, chunks, E.pick("feed", case["modes"]))
    loop_clean(E, loop)
    dmsgs, dterm = _datagram_view(E, M, raw)
    _compare(E, M, got, term, dmsgs, dterm)


def h18l(E, M, case):
    """long messages on the real StreamReader (concrete content, solver-chosen cuts)"""
    loop = new_loop(E)
    raw = []
    for i in range(case["n"]):
        raw += wire.someip_bytes(0x1000 + i, i, 1, 2, 3, 0x80, 0, [(i * 7 + j) % 256 for j in range(case["plen"] if i % 2 == 0 else i)])
    L = len(raw)
    end = L - E.choice("short", 3) * 7
    raw = raw[:end]
    # cut positions: only their relation to message boundaries matters; take boundary-biased picks
    picks = [0, 1, 15, 16, 17, len(raw) // 2, len(raw) - 1, len(raw)]
    c1 = picks[E.choice("c1", len(picks))]
    c2 = picks[E.choice("c2", len(picks))]
    a, b = min(c1, c2), max(c1, c2)
    chunks = [bytes(raw[:a]), bytes(raw[a:b]), bytes(raw[b:])]
    reader = asyncio.StreamReader(loop=loop)
    hdr = M.header
    got, term = [], []

    async def consume():
        r = hdr.SOMEIPReader(reader)
        while True:
            try:
                m = await r.read()
            except asyncio.IncompleteReadError as exc:
                term.append("incomplete" if len(exc.partial) else "end")
                return
            except hdr.ParseError:
                term.append("reject")
                return
            got.append(m)

    loop.call(lambda: loop.create_task(consume()))
    for k, ch in enumerate(chunks):
        if ch:
            loop.deliver(k + 1, lambda ch=ch: reader.feed_data(ch), may_defer=False)
        loop.settle()
    loop.deliver(9, reader.feed_eof, may_defer=False)
    loop.settle()
    dmsgs, dterm = _datagram_view(E, M, list(raw))
    _compare(E, M, got, term, dmsgs, dterm)


SCENARIOS = {"H18": h18, "H18L": h18l}

"""C01 - SOME/IP message encoding round-trips and matches the wire layout."""
from __future__ import annotations

import itertools

from oracle import wire

from .c07 import mk
from .common import P

PROPERTY = "C01"
BUDGET_S = {"quick": 600, "thorough": 2400}
STUBS = ["struct/bytes/enum lowering (C-boundary models, validated by concrete re-runs of sampled paths on the real struct)"]
ASSUMPTIONS = [
    "payloads longer than 8 bytes: first byte, last byte and one shared fill byte are symbolic (content independence of the codec is exercised, not every byte pattern)",
    "payload lengths from the boundary list; lengths above 65536 are outside the claim",
    "protocol version 1 (the only one parse accepts) in H01a/H01c; H01b ranges over all 256",
]
REACH = {"H01a": ["h01a.roundtrip"], "H01b": ["h01b.accept", "h01b.reject"], "H01c": ["h01c.delivered"]}
LENGTHS_Q = [0, 1, 2, 7, 8, 9, 255, 256, 65527, 65528]
LENGTHS_T = [0, 1, 2, 7, 8, 9, 255, 256, 65519, 65527, 65528, 65529, 65535, 65536]


def bounds(tier):
    return {
        "H01a": "service/method/client/session 16-bit, interface version 8-bit symbolic; every defined message type x return code (110 combinations, forked; first/last member only for payloads > 256 bytes); payload length in %s; suffix of 0..2 symbolic bytes or a whole second message" % (LENGTHS_T if tier == "thorough" else LENGTHS_Q),
        "H01b": "16 fully symbolic header bytes (incl. length field, protocol version, undefined types/codes), buffers of 0..%d bytes" % (24 if tier == "quick" else 28),
        "H01c": "1..%d concatenated messages, header fields symbolic, payload lengths from {0,1,3}, optional 1..2 byte garbage tail, through the real datagram_received" % (3 if tier == "quick" else 4),
    }


def cases(tier, seed):
    out = []
    lengths = LENGTHS_T if tier == "thorough" else LENGTHS_Q
    for n in lengths:
        for sfx in (0, 1, 2, "msg"):
            if tier == "quick" and n > 256 and sfx not in (0, 2):
                continue
            out.append({"h": "H01a", "plen": n, "suffix": sfx, "_w": 5 + n // 2000})
    maxbuf = 24 if tier == "quick" else 28
    for n in range(0, maxbuf + 1):
        out.append({"h": "H01b", "buflen": n, "_w": 3})
    K = 3 if tier == "quick" else 4
    for k in range(1, K + 1):
        for lens in itertools.product((0, 1, 3), repeat=k):
            for tail in (0, 1, 2):
                out.append({"h": "H01c", "lens": list(lens), "tail": tail})
            if k <= 2:
                out.append({"h": "H01c", "lens": list(lens), "tail": 0, "twice": True})
    return out


def _payload(E, n, tag="p"):
    if n <= 8:
        return [E.int("%s%d" % (tag, i), 0, 255) for i in range(n)]
    first, last, fill = E.int(tag + "_first", 0, 255), E.int(tag + "_last", 0, 255), E.int(tag + "_fill", 0, 255)
    return [first] + [fill] * (n - 2) + [last]


def h01a(E, M, case):
    hdr = M.header
    sid, mid = E.int("service", 0, 0xFFFF), E.int("method", 0, 0xFFFF)
    cid, ssn = E.int("client", 0, 0xFFFF), E.int("session", 0, 0xFFFF)
    iv = E.int("iface", 0, 0xFF)
    types, codes = list(hdr.SOMEIPMessageType), list(hdr.SOMEIPReturnCode)
    if case["plen"] > 256:
        # long payloads: the type x code product is covered by the short ones
        types, codes = [types[0], types[-1]], [codes[0], codes[-1]]
    mt = E.pick("mtype", types)
    rc = E.pick("rcode", codes)
    payload = _payload(E, case["plen"])
    msg = hdr.SOMEIPHeader(service_id=sid, method_id=mid, client_id=cid, session_id=ssn, interface_version=iv, message_type=mt, return_code=rc, payload=mk(E, payload))
    built = msg.build()
    expect = wire.someip_bytes(sid, mid, cid, ssn, iv, mt.value, rc.value, payload)
    E.require(len(built) == len(expect), "encoded length is 16 + payload length")
    E.require(E.eq(mk(E, list(built)), mk(E, expect)), "encoded bytes follow the SOME/IP layout (big-endian ids, length = payload + 8, versions, type, code, payload)")
    sfx = case["suffix"]
    if sfx == "msg":
        suffix = wire.someip_bytes(E.int("s_service", 0, 0xFFFF), 1, 2, 3, 4, 0, 0, [E.int("s_p", 0, 255)])
    else:
        suffix = [E.int("sfx%d" % i, 0, 255) for i in range(sfx)]
    buf = mk(E, list(built) + suffix)
    m2, rest = hdr.SOMEIPHeader.parse(buf)
    E.reach("h01a.roundtrip")
    E.observe([m2.service_id, m2.method_id, m2.client_id, m2.session_id, m2.interface_version, int(m2.message_type), int(m2.return_code), len(m2.payload), len(rest)])
    E.require(E.And(m2.service_id == sid, m2.method_id == mid, m2.client_id == cid, m2.session_id == ssn, m2.interface_version == iv, m2.protocol_version == 1), "decoded ids and versions equal the original")
    E.require(m2.message_type is mt and m2.return_code is rc, "decoded message type and return code equal the original")
    E.require(E.eq(m2.payload, mk(E, payload)), "decoded payload equals the original")
    E.require(E.eq(rest, mk(E, suffix)), "the unconsumed rest is exactly the appended suffix")
    E.require(E.eq(m2, msg), "decode(encode(m) + suffix) == m")


def h01b(E, M, case):
    hdr = M.header
    n = case["buflen"]
    raw = [E.int("b%d" % i, 0, 255) for i in range(n)]
    buf = mk(E, raw)
    try:
        m, rest = hdr.SOMEIPHeader.parse(buf)
        outcome = "ok"
    except hdr.IncompleteReadError:
        outcome = "incomplete"
    except hdr.ParseError:
        outcome = "parse-error"
    E.observe(outcome)
    # independent verdict
    if n < 16:
        E.reach("h01b.reject")
        E.require(outcome == "incomplete", "a buffer shorter than a header is an incomplete read")
        return
    f = {"service": wire.uint(raw, 0, 2), "method": wire.uint(raw, 2, 2), "length": wire.uint(raw, 4, 4), "client": wire.uint(raw, 8, 2), "session": wire.uint(raw, 10, 2)}
    pv, iv, mt, rc = raw[12], raw[13], raw[14], raw[15]
    header_ok = E.And(pv == 1, E.Or(*[mt == x for x in wire.MESSAGE_TYPES]), E.Or(*[rc == x for x in wire.RETURN_CODES]), f["length"] >= 8)
    enough = f["length"] - 8 <= n - 16
    E.require(E.Iff(outcome == "ok", E.And(header_ok, enough)), "parse accepts exactly: version 1, defined type and code, length >= 8, enough bytes", {"outcome": outcome})
    E.require(E.Implies(E.And(header_ok, E.Not(enough)), outcome == "incomplete"), "a valid header with too few payload bytes is an incomplete read")
    E.require(E.Implies(E.Not(header_ok), outcome == "parse-error"), "an invalid header is a parse error (not an incomplete read)")
    if outcome == "ok":
        E.reach("h01b.accept")
        E.require(E.And(m.service_id == f["service"], m.method_id == f["method"], m.client_id == f["client"], m.session_id == f["session"], m.protocol_version == pv, m.interface_version == iv, m.message_type == mt, m.return_code == rc), "decoded fields are the big-endian header fields")
        E.require(len(m.payload) + 8 == f["length"], "payload length is length - 8")
        k = len(m.payload)
        E.require(E.eq(m.payload, mk(E, raw[16 : 16 + k])), "payload is buf[16 : 8 + length]")
        E.require(E.eq(rest, mk(E, raw[16 + k :])), "rest is buf[8 + length :]")
    else:
        E.reach("h01b.reject")


def h01c(E, M, case):
    hdr = M.header
    got = []

    class Prot(M.sd.SOMEIPDatagramProtocol):
        def message_received(self, someip_message, addr, multicast):
            got.append((someip_message, addr, multicast))

    prot = Prot()
    sent = []
    data = []
    for i, n in enumerate(case["lens"]):
        f = dict(service=E.int("service%d" % i, 0, 0xFFFF), method=E.int("method%d" % i, 0, 0xFFFF), client=E.int("client%d" % i, 0, 0xFFFF), session=E.int("session%d" % i, 0, 0xFFFF), iface=E.int("iface%d" % i, 0, 0xFF))
        mt = E.int("mtype%d" % i, 0, 0xFF)
        E.assume(E.Or(mt == 0x00, mt == 0x80))
        f["mtype"] = mt
        f["payload"] = [E.int("p%d_%d" % (i, j), 0, 255) for j in range(n)]
        sent.append(f)
        data += wire.someip_bytes(f["service"], f["method"], f["client"], f["session"], f["iface"], mt, 0, f["payload"])
    data += [E.int("tail%d" % i, 0, 255) for i in range(case["tail"])]
    mc = E.flag("multicast")
    buf = mk(E, data)
    prot.datagram_received(buf, P, mc)
    if case.get("twice"):
        # a sender may emit identical bytes again (e.g. unchanged cyclic notification)
        prot.datagram_received(buf, P, mc)
        sent = sent + sent
    E.observe(len(got))
    E.require(len(got) == len(sent), "every message of the datagram is delivered (a garbage tail after them is dropped)", {"delivered": len(got), "sent": len(sent)})
    for (m, addr, mcast), f in zip(got, sent):
        E.reach("h01c.delivered")
        E.require(addr == P and mcast == mc, "sender address and channel are passed through")
        E.require(E.And(m.service_id == f["service"], m.method_id == f["method"], m.client_id == f["client"], m.session_id == f["session"], m.interface_version == f["iface"], m.message_type == f["mtype"], m.return_code == 0), "messages are delivered one by one, in order, with their own header fields")
        E.require(E.eq(m.payload, mk(E, f["payload"])), "each delivered message has its own payload")


SCENARIOS = {"H01a": h01a, "H01b": h01b, "H01c": h01c}

"""C12 - FindService is answered only by matching, ready instances, by unicast, in time."""
from __future__ import annotations

import ipaddress

from oracle import wire
from symx.vloop import Script

from .c07 import mk
from .common import MC, P, TTL_FOREVER, RecTransport, loop_clean, new_loop, stub_uniform

PROPERTY = "C12"
BUDGET_S = {"quick": 900, "thorough": 7200}
STUBS = ["VirtualLoop (symbolic arrival instant and iteration)", "random.uniform: symbolic tick counts inside the windows", "struct/bytes/enum lowering (all four id/version fields of the request are symbolic bytes)"]
ASSUMPTIONS = [
    "only the first instance's initial delay is symbolic (the others start after 30 / 70 ms)", "a request arriving while an instance's first offer sits in the send collector (queued, not yet transmitted), or at the very tick of its first offer / of a stop, may or may not be answered: both accepted",
    "initial-delay window 0..100 ms, request-response window 10..50 ms, repetitions 1 at 10 ms, cyclic 1 s; instants are multiples of 1 ms",
]
REACH = {"H12": ["h12.answered", "h12.silent", "h12.end"]}
INSTS = [(0x1234, 1, 2, 7), (0x1234, 2, 2, 7), (0x1235, 1, 1, 0)]


def bounds(tier):
    return {"H12": "family 'fields': %d instances with differing ids/versions, FindService service/instance 16-bit, major 8-bit, minor 32-bit, TTL fully symbolic (every wildcard combination included), channel symbolic, arrival at 0 / 25 / 500 / 1040 ms (initial wait, between first offers, repetition done, cyclic phase), TTL {3, infinite} x collection timeout {0, 5 ms}; family 'times': request from {exact, all wildcards, other service, other minor}, arrival instant symbolic in 0..1500 ms, initial delay and request-response delay symbolic, optional stop of the instance (stop_announce_service) or of the announcer at a symbolic instant, channel symbolic, %s; family 'restart': multicast request at a symbolic instant >= 200 ms, announcer stopped and started again 0..50 ms later (inside the response window), response delay symbolic, collection timeout {0, 5 ms}" % ((3, "1..2 instances") if tier == "thorough" else (2, "1 instance"))}


FINDS = {"exact": (0x1234, 1, 2, 7), "wild": (0x1234, 0xFFFF, 0xFF, 0xFFFFFFFF), "other": (0x1235, 1, 2, 7), "minor": (0x1234, 1, 2, 8)}


def cases(tier, seed):
    out = []
    n = 3 if tier == "thorough" else 2
    # family A (inputs): every field of the request symbolic, arrival at fixed instants
    for ttl in (3, TTL_FOREVER):
        for col in (0, 5):
            for at in (0, 25, 500, 1040):
                if tier == "quick" and ttl == TTL_FOREVER and col == 5:
                    continue
                out.append({"h": "H12", "fam": "fields", "n": n, "ttl": ttl, "collect": col, "stop": 0, "at": at, "_w": 3})
    # family B (schedules): arrival/stop instants, initial delay and response delay symbolic,
    # request from a small alphabet
    for find in FINDS:
        for col in (0, 5):
            for stop in (0, 1, 2):
                for nn in ((1, 2) if tier == "thorough" else (1,)):
                    if tier == "quick" and find in ("other", "minor") and (stop or col):
                        continue
                    out.append({"h": "H12", "fam": "times", "n": nn, "ttl": 3, "collect": col, "stop": stop, "find": find, "_w": 8 * nn})
    # family C (restart): a multicast request reaches a ready instance, the announcer is stopped
    # and started again inside the request-response window: the delayed answer must not leave
    # while the restarted instance is in its new initial wait phase
    for col in (0, 5):
        out.append({"h": "H12", "fam": "restart", "n": 1, "ttl": 3, "collect": col, "stop": 3, "find": "exact", "_w": 8})
    if tier == "quick":
        out.append({"h": "H12", "fam": "times", "n": 2, "ttl": 3, "collect": 0, "stop": 1, "find": "wild", "_w": 16})
    return out


def h12(E, M, case):
    loop = new_loop(E)
    sd, cfg, hdr = M.sd, M.config, M.header
    # the instance under test (first one) draws a symbolic initial delay; the others get
    # fixed ones so that only one instance's phase boundaries are symbolic
    fam = case["fam"]
    drawn = stub_uniform(E, M, fixed=lambda lo, hi, n: (None if (n == 1 and fam == "times") or (lo, hi) != (0, 100) else {1: 20, 2: 30, 3: 70}.get(n, 50)))
    C, ttl = case["collect"], case["ttl"]
    tm = sd.Timings(INITIAL_DELAY_MIN=0.0, INITIAL_DELAY_MAX=0.1, REQUEST_RESPONSE_DELAY_MIN=0.01, REQUEST_RESPONSE_DELAY_MAX=0.05, REPETITIONS_MAX=1, REPETITIONS_BASE_DELAY=0.01, CYCLIC_OFFER_DELAY=1, ANNOUNCE_TTL=ttl, SEND_COLLECTION_TIMEOUT=C / 1000 if C else 0)
    prot = sd.ServiceDiscoveryProtocol(MC, timings=tm)
    tr = RecTransport(loop)
    prot.transport = tr
    ann = prot.announcer
    insts = []
    for k in range(case["n"]):
        s = INSTS[k]
        opt = hdr.IPv4EndpointOption(ipaddress.IPv4Address("192.0.2.100"), hdr.L4Protocols.UDP, 30500 + k)
        inst = sd.ServiceInstance(cfg.Service(s[0], s[1], s[2], s[3], options_1=(opt,)), sd.ServerServiceListener(), ann, tm)
        insts.append(inst)
        loop.call(ann.announce_service, inst)
    loop.call(ann.start)
    if case["fam"] == "fields":
        fs, fi = E.int("f_service", 0, 0xFFFF), E.int("f_instance", 0, 0xFFFF)
        fm, fn = E.int("f_major", 0, 0xFF), E.int("f_minor", 0, 0xFFFFFFFF)
        fttl = E.int("f_ttl", 0, 0xFFFFFF)
    else:
        fs, fi, fm, fn = FINDS[case["find"]]
        fttl = 3
    data = mk(E, wire.sd_message(1, 0xC0, [wire.sd_entry_bytes(wire.T_FIND, 0, 0, 0, 0, fs, fi, fm, fttl, fn)], []))
    tf = case["at"] if case["fam"] == "fields" else E.int("t_find", 0, 1500)
    sc = Script(loop, E)
    if fam == "restart":
        return _restart(E, M, case, loop, prot, ann, tr, sc, data, tf, drawn)
    mc = E.flag("multicast")
    ts = None
    stop_joined = False
    stop_first = False
    # stop == 1: the instance is withdrawn (stop_announce_service); stop == 2: the whole
    # announcer is stopped (instances stay registered)
    stopper = (lambda: ann.stop_announce_service(insts[0])) if case["stop"] == 1 else ann.stop
    if case["stop"]:
        ts = E.int("t_stop", 0, 1500)
        # at the same tick either may come first (and they may share a loop iteration)
        stop_first = bool(ts < tf) or (bool(ts == tf) and E.flag("stop_first_at_tie"))
        if stop_first:
            sc.at(ts, stopper, "stop")
            sc.at(tf, lambda: prot.datagram_received(data, P, mc), "find")
        else:
            sc.at(tf, lambda: prot.datagram_received(data, P, mc), "find")
            stop_joined = sc.at(ts, stopper, "stop")
    else:
        sc.at(tf, lambda: prot.datagram_received(data, P, mc), "find")
    sc.flush()
    loop.settle(1700)
    loop_clean(E, loop)
    E.reach("h12.end")
    starts = [d for d in drawn if (d["lo"], d["hi"]) == (0, 100)]
    delays = [d for d in drawn if (d["lo"], d["hi"]) == (10, 50)]
    E.require(len(starts) == case["n"], "one initial delay per instance")
    uni = []
    for (t, dgram, addr) in tr.sent:
        for msg in wire.parse_someip_all(dgram):
            sdm = wire.parse_sd(msg["payload"])
            for e in sdm["entries"]:
                if addr != MC:
                    uni.append({"t": t, "to": addr, "e": e, "opts": wire.entry_options(sdm, e)})
    E.observe([[x["t"], str(x["to"]), x["e"]["service"], x["e"]["instance"], x["e"]["ttl"]] for x in uni])
    E.require(all(x["to"] == P for x in uni), "answers go to the requester's address only")
    E.require(all(x["e"]["type"] == wire.T_OFFER for x in uni), "a FindService is answered with offers only")
    accounted = 0
    for k, inst in enumerate(insts):
        s = INSTS[k]
        mine = [x for x in uni if (x["e"]["service"], x["e"]["instance"]) == (s[0], s[1])]
        accounted += len(mine)
        q0 = starts[k]["at"] + starts[k]["v"]
        match = E.And(fs == s[0], E.Or(fi == 0xFFFF, fi == s[1]), E.Or(fm == 0xFF, fm == s[2]), E.Or(fn == 0xFFFFFFFF, fn == s[3]))
        ready = tf > q0 + C
        notready = tf < q0
        if ts is not None and (k == 0 or case["stop"] == 2):
            # the answer must have left before the stop to be certain; a request after the
            # stop is certainly not answered
            leave_by = tf + (50 if mc else 0) + C
            ready = E.And(ready, ts > leave_by)
            # stop delivered before the request (also within the same tick / iteration): the
            # instance is stopped when the request arrives
            if stop_first:
                notready = True
            # the answer is generated after the request's own loop iteration (unicast) or
            # after the drawn delay (multicast): an instance stopped before that moment
            # stays silent as well
            if stop_joined:
                notready = True
            if mc and delays:
                notready = E.Or(notready, ts < tf + delays[0]["v"])
        n = len(mine)
        if n:
            E.reach("h12.answered")
        else:
            E.reach("h12.silent")
        E.require(n <= 1, "an instance answers a FindService entry at most once", {"instance": k, "answers": n})
        E.require(E.Implies(E.And(match, ready), n == 1), "every running instance that has sent its first offer and matches (ids equal or wildcarded by the request) answers", {"instance": k, "answers": n})
        E.require(E.Implies(E.Or(E.Not(match), notready), n == 0), "no other instance answers; instances in their initial wait phase or stopped stay silent", {"instance": k, "answers": n})
        for x in mine:
            E.require(E.And(x["e"]["ttl"] == ttl, x["e"]["major"] == s[2], x["e"]["minor"] == s[3]), "the answer carries the configured TTL and the instance's versions")
            o1, o2 = x["opts"]
            E.require(len(o1) == 1 and not o2 and wire.ip_option_fields(o1[0])["port"] == 30500 + k, "the answer carries the instance's options")
            if mc:
                E.require(len(delays) == 1, "one request-response delay is drawn for a multicast request")
                E.require(E.And(x["t"] >= tf + 10, x["t"] <= tf + 50 + C), "a request received by multicast is answered after a delay inside the request-response window")
                if delays:
                    E.require(E.And(x["t"] >= tf + delays[0]["v"], x["t"] <= tf + delays[0]["v"] + C), "the answer leaves when the drawn delay has passed")
            else:
                E.require(E.And(x["t"] >= tf, x["t"] <= tf + C), "a request received by unicast is answered without added delay")
    E.require(accounted == len(uni), "only announced instances answer")


def _restart(E, M, case, loop, prot, ann, tr, sc, data, tf, drawn):
    C = case["collect"]
    E.assume(tf >= 200)
    ts = tf + E.int("d_restart", 0, 50)

    def restart():
        ann.stop()
        ann.start()

    sc.at(tf, lambda: prot.datagram_received(data, P, True), "find")
    sc.at(ts, restart, "restart")
    sc.flush()
    loop.settle(1700)
    loop_clean(E, loop)
    E.reach("h12.end")
    starts = [d for d in drawn if (d["lo"], d["hi"]) == (0, 100)]
    E.require(len(starts) == 2, "one initial delay per start of the instance")
    q1 = starts[-1]["at"] + starts[-1]["v"]
    uni = []
    for (t, dgram, addr) in tr.sent:
        for msg in wire.parse_someip_all(dgram):
            sdm = wire.parse_sd(msg["payload"])
            for e in sdm["entries"]:
                if addr != MC:
                    uni.append({"t": t, "to": addr, "e": e})
    E.observe([[x["t"], str(x["to"]), x["e"]["service"], x["e"]["instance"], x["e"]["ttl"]] for x in uni])
    E.require(len(uni) <= 1, "an instance answers a FindService entry at most once", {"answers": len(uni)})
    if uni:
        E.reach("h12.answered")
    else:
        E.reach("h12.silent")
    for x in uni:
        E.require(E.And(x["to"] == P, x["e"]["type"] == wire.T_OFFER, x["e"]["ttl"] == case["ttl"]), "answers go to the requester's address only")
        # at the tick of the restart the answer may precede it; at the tick of the new first
        # offer (or while that offer sits in the send collector) either order is accepted
        E.require(E.Or(x["t"] <= ts, x["t"] >= q1), "no other instance answers; instances in their initial wait phase or stopped stay silent", {"t": x["t"], "restart": ts, "first_offer_after_restart": q1})
        E.require(E.And(x["t"] >= tf + 10, x["t"] <= tf + 50 + C), "a request received by multicast is answered after a delay inside the request-response window")


SCENARIOS = {"H12": h12}

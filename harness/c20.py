"""C20 - decoding canonicalises: decode-encode-decode equals decode."""
from __future__ import annotations

from oracle import wire

from .c07 import mk
from .decoders import mutate, mutation_specs, run_decoder, template_sd, template_someip

PROPERTY = "C20"
BUDGET_S = {"quick": 900, "thorough": 7200}
STUBS = ["struct/bytes/bytearray/b''.join/enum lowering", "option registry: equality-scan dict", "SymIP for addresses from symbolic bytes"]
ASSUMPTIONS = [
    "accepted inputs reachable as: fully symbolic small buffers (every byte free, so every reserved byte, flag bit, type, protocol number, index and count is covered up to the stated sizes) and templates from the independent writer with symbolic windows (non-zero reserved bytes, option tails, unknown types, unreferenced options, zero-count indexes)",
    "rejected inputs are outside this property (C03)",
]
REACH = {"H20a": ["h20.accepted", "h20.rejected"], "H20t": ["h20.accepted", "h20.rejected"]}


def bounds(tier):
    n = 22 if tier == "thorough" else 18
    return {
        "H20a": "fully symbolic buffers: SD header 12..%d bytes, SD entry 16..18 bytes with symbolic option count, SD option 3..%d bytes and typed exact-size payloads, SOME/IP message 16..24 bytes" % (n, 9 if tier == "thorough" else 8),
        "H20t": "4 SD templates incl. a non-canonical one (non-zero reserved bytes, configuration tail garbage, unknown option type, unknown protocol number, unreferenced option, index with zero count) with windows of %s symbolic bytes at every position" % ("1, 2 (every position) / 3 (every 4th) / 4 (every 2nd)" if tier == "thorough" else "1 (every position) / 4 (every 4th)"),
    }


def noncanonical_sd():
    """legal but non-canonical layout from the independent writer"""
    v4 = wire.sd_option_bytes(wire.OPT_V4_ENDPOINT, wire.ip_option_data([192, 0, 2, 1], 0x99, 30509, reserved=0x5A), reserved=0xA5)
    cfgdata = [3] + list(b"a=b") + [0] + [0xDE, 0xAD]  # garbage after the terminator
    cfg = wire.sd_option_bytes(wire.OPT_CONFIG, cfgdata, reserved=1)
    unk = wire.sd_option_bytes(0xEE, [9, 8, 7], reserved=0xFF)
    lonely = wire.sd_option_bytes(wire.OPT_LOADBAL, wire.be(5, 2) + wire.be(6, 2))  # referenced by nobody
    entries = [
        wire.sd_entry_bytes(wire.T_OFFER, 0, 3, 2, 0, 0x1234, 1, 1, 3, 7),  # second run: index 3, count 0
        wire.sd_entry_bytes(wire.T_FIND, 4, 4, 0, 0, 0x1234, 1, 1, 3, 7),  # indexes == len(options), counts 0
    ]
    return wire.sd_payload(0xC0 | 0x2A, entries, [v4, cfg, unk, lonely], reserved=(1, 2, 3))


def _template(variant):
    return noncanonical_sd() if variant == 3 else template_sd(variant)


def cases(tier, seed):
    out = []
    nmax = 22 if tier == "thorough" else 18
    for n in range(12, nmax + 1):
        out.append({"h": "H20a", "dec": "sd", "n": n, "_w": 1 + (n > 12) * 10 ** max(0, (n - 12) // 4)})
    for n in (16, 17, 18):
        out.append({"h": "H20a", "dec": "entry", "n": n})
    for n in range(3, (10 if tier == "thorough" else 9)):
        out.append({"h": "H20a", "dec": "option", "n": n, "_w": 2 + 4 ** max(0, n - 6)})
    for ty, size in ((1, 7 if tier == "thorough" else 6), (2, 5), (4, 9), (6, 21), (0x14, 9), (0x16, 21), (0x24, 9), (0x26, 21), (0x99, 4)):
        out.append({"h": "H20a", "dec": "option-typed", "type": ty, "size": size, "_w": 2})
    for n in range(16, 25):
        out.append({"h": "H20a", "dec": "someip", "n": n, "_w": 3})
    for variant in (0, 1, 2, 3):
        base = _template(variant)
        for spec in mutation_specs(len(base), tier):
            if spec["m"] in ("truncate", "dup") and tier == "quick" and spec["pos"] % 4:
                continue
            out.append({"h": "H20t", "variant": variant, **spec})
    return out


def _cycle(E, M, parse, raw, *args, exact=False):
    """parse raw; when accepted: re-encode, re-decode, compare"""
    hdr = M.header
    buf = mk(E, raw)
    outcome, v, rest, exc = run_decoder(M, parse, buf, *args)
    E.observe([outcome])
    if outcome != "ok":
        E.reach("h20.rejected")
        return
    E.reach("h20.accepted")
    try:
        b2 = v.build()
    except Exception as e:  # noqa: BLE001 - re-encoding a decoded value must not fail
        E.require(False, "a decoded value can be encoded again without error", {"exc": repr(e)})
        return
    b2 = mk(E, list(b2))
    out2, v2, rest2, exc2 = run_decoder(M, parse, b2, *args)
    E.require(out2 == "ok", "the re-encoded bytes decode", {"outcome": out2, "exc": repr(exc2)})
    if out2 != "ok":
        return
    E.require(len(rest2) == 0, "nothing is left over after decoding the re-encoded bytes")
    E.require(E.eq(v2, v), "decode(encode(decode(b))) == decode(b)", {"first": repr(v)[:300], "second": repr(v2)[:300]})
    if exact:
        consumed = len(raw) - len(rest)
        E.require(E.eq(b2, mk(E, raw[:consumed])), "for SOME/IP messages the re-encoded bytes equal the consumed input")
    return v, v2


def h20a(E, M, case):
    hdr = M.header
    dec = case["dec"]
    if dec == "sd":
        raw = [E.int("b%d" % i, 0, 255) for i in range(case["n"])]
        r = _cycle(E, M, hdr.SOMEIPSDHeader.parse, raw)
        if r:
            v, v2 = r
            E.require(E.And(v2.flags_unknown == v.flags_unknown, E.eq(v2.flag_reboot, v.flag_reboot), E.eq(v2.flag_unicast, v.flag_unicast)), "flag bits (incl. unknown ones) survive")
            E.require(len(v2.options) == len(v.options) and len(v2.entries) == len(v.entries), "all options (also unreferenced ones) and entries survive")
    elif dec == "entry":
        raw = [E.int("b%d" % i, 0, 255) for i in range(case["n"])]
        nopt = E.int("num_options", 0, 300)
        r = _cycle(E, M, hdr.SOMEIPSDEntry.parse, raw, nopt)
        if r:
            v, v2 = r
            E.require(E.And(v2.option_index_1 == v.option_index_1, v2.option_index_2 == v.option_index_2, v2.num_options_1 == v.num_options_1, v2.num_options_2 == v.num_options_2), "raw option indexes and counts survive")
    elif dec in ("option", "option-typed"):
        if dec == "option":
            raw = [E.int("b%d" % i, 0, 255) for i in range(case["n"])]
        else:
            size = case["size"]
            raw = wire.be(size, 2) + [case["type"]] + [E.int("b%d" % i, 0, 255) for i in range(size)]
        r = _cycle(E, M, hdr.SOMEIPSDOption.parse, raw)
        if r:
            v, v2 = r
            E.require(type(v).__name__ == type(v2).__name__, "option kind survives")
    else:
        raw = [E.int("b%d" % i, 0, 255) for i in range(case["n"])]
        _cycle(E, M, hdr.SOMEIPHeader.parse, raw, exact=True)


def h20t(E, M, case):
    hdr = M.header
    raw = mutate(E, _template(case["variant"]), case)
    r = _cycle(E, M, hdr.SOMEIPSDHeader.parse, raw)
    if r:
        v, v2 = r
        # resolved view: every entry keeps its own options through the cycle
        a, b = v.resolve_options(), v2.resolve_options()
        for x, y in zip(a.entries, b.entries):
            E.require(E.And(E.eq(tuple(x.options_1), tuple(y.options_1)), E.eq(tuple(x.options_2), tuple(y.options_2))), "resolved option runs survive the cycle")


SCENARIOS = {"H20a": h20a, "H20t": h20t}

"""C10 - offer lifecycle: wait, repetition and cyclic phases; nothing follows a StopOffer."""
from __future__ import annotations

import ipaddress

from oracle import wire
from symx.vloop import Script

from .common import MC, P, TTL_FOREVER, RecTransport, loop_clean, new_loop, stub_uniform

PROPERTY = "C10"
BUDGET_S = {"quick": 900, "thorough": 7200}
STUBS = [
    "event loop: VirtualLoop (symbolic ticks; API calls and datagrams injected at solver-chosen instants and iterations)",
    "random.uniform: fresh symbolic tick count inside the requested window (initial delay, request-response delay)",
    "struct/bytes lowering (transmitted datagrams are decoded by the independent reader)",
]
ASSUMPTIONS = [
    "timing configurations are multiples of 1 ms: initial-delay window 0..100 ms, repetition base delay 10 ms, cyclic period 1 s or none, request-response window 10..50 ms, collection timeout 0 or 5 ms",
    "observations at transport.sendto: an entry scheduled at instant t leaves in [t, t + collection timeout]; order between entries is the order in the transmitted entry sequence",
    "a non-cyclic instance stopped before its first offer is not constrained (the statement covers cyclic ones)",
    "at an exact tie between a scheduled transmission and a stop both outcomes are accepted",
]
REACH = {"H10": ["h10.offer", "h10.stopoffer", "h10.end"]}
SVC = (0x1234, 1, 2, 7)
HORIZON = 2600


def bounds(tier):
    return {"H10": "scenarios {run, stop, stop+start, stop+stop, find(unicast|multicast)+stop, two unicast finds+stop, stop+find, stop_announce_service+find, connection_lost, SimpleService helper start+stop%s} x repetitions {0,1,2%s} (3 as well for run/stop) x cyclic {off,1 s} x TTL {3, infinite} x collection timeout {0, 5 ms}; initial delay, request-response delay and every event instant symbolic (events anywhere in 0..3000 ms), delivery iteration symbolic; observed to %d ms after the last event" % (((", two instances", ",4") if tier == "thorough" else ("", "")) + (HORIZON,))}


def cases(tier, seed):
    out = []
    scen = ["run", "stop", "stop-start", "stop-stop", "finduc-stop", "find2uc-stop", "findmc-stop", "stop-finduc", "stop-findmc", "svcstop-finduc", "lost", "helper"]
    if tier == "thorough":
        scen += ["two-stop-find"]
    reps = [0, 1, 2] + ([4] if tier == "thorough" else [])
    for sc in scen:
        # the doubling of the repetition gaps shows from the third repetition on
        for r in reps + ([3] if tier == "quick" and sc in ("run", "stop") else []):
            for cyc in (0, 1):
                for ttl in (3, TTL_FOREVER):
                    for col in (0, 5):
                        if sc == "helper" and (r != 1 or ttl != 3):
                            continue
                        if sc == "two-stop-find" and (r > 1 or ttl != 3):
                            continue
                        if sc == "find2uc-stop" and (r != 1 or ttl != 3):
                            continue
                        if tier == "quick" and ttl == TTL_FOREVER and (r == 2 or sc in ("run", "stop-start")):
                            continue
                        out.append({"h": "H10", "scen": sc, "rep": r, "cyclic": cyc, "ttl": ttl, "collect": col, "_w": 2 + r + 2 * (sc in ("finduc-stop", "find2uc-stop", "findmc-stop", "stop-start"))})
    return out


def h10(E, M, case):
    loop = new_loop(E)
    sd, cfg, hdr = M.sd, M.config, M.header
    # with two instances only the first one's initial delay is symbolic (the second starts at 40 ms)
    two = case["scen"] == "two-stop-find"
    drawn = stub_uniform(E, M, fixed=(lambda lo, hi, n: 40 if (two and n == 2 and (lo, hi) == (0, 100)) else None))
    R, cyc, ttl, C = case["rep"], case["cyclic"], case["ttl"], case["collect"]
    tm = sd.Timings(INITIAL_DELAY_MIN=0.0, INITIAL_DELAY_MAX=0.1, REQUEST_RESPONSE_DELAY_MIN=0.01, REQUEST_RESPONSE_DELAY_MAX=0.05, REPETITIONS_MAX=R, REPETITIONS_BASE_DELAY=0.01, CYCLIC_OFFER_DELAY=cyc, ANNOUNCE_TTL=ttl, SEND_COLLECTION_TIMEOUT=C / 1000 if C else 0)
    prot = sd.ServiceDiscoveryProtocol(MC, timings=tm)
    tr = RecTransport(loop)
    prot.transport = tr
    ann = prot.announcer
    scen = case["scen"]
    errors = []

    def guarded(fn, what):
        def run():
            try:
                fn()
            except Exception as exc:  # noqa: BLE001 - the listed calls must succeed
                errors.append((what, repr(exc)))

        return run

    opt = hdr.IPv4EndpointOption(ipaddress.IPv4Address("192.0.2.100"), hdr.L4Protocols.UDP, 30509)
    svc = cfg.Service(SVC[0], SVC[1], SVC[2], SVC[3], options_1=(opt,), eventgroups=frozenset({5}))
    helper = None
    insts = []
    if scen == "helper":

        class Svc(M.service.SimpleService):
            service_id = SVC[0]
            version_major = SVC[2]
            version_minor = SVC[3]

        helper = loop.call(Svc, SVC[1])
        helper.transport = RecTransport(loop, sockname=("192.0.2.100", 30509))
        loop.call(helper.start_announce, ann)
    else:
        inst = sd.ServiceInstance(svc, sd.ServerServiceListener(), ann, tm)
        loop.call(ann.announce_service, inst)
        insts.append(inst)
        if scen == "two-stop-find":
            inst2 = sd.ServiceInstance(cfg.Service(SVC[0], 2, SVC[2], SVC[3]), sd.ServerServiceListener(), ann, tm)
            loop.call(ann.announce_service, inst2)
            insts.append(inst2)
    loop.call(ann.start)
    find = bytes(wire.sd_message(1, 0xC0, [wire.sd_entry_bytes(wire.T_FIND, 0, 0, 0, 0, SVC[0], SVC[1], SVC[2], 3, SVC[3])], []))
    t1 = E.int("t1", 0, 3000)
    t2 = t1 + E.int("dt2", 0, 3000)
    sc = Script(loop, E)
    stops = []  # (tick of the stop, restart tick or None)
    finds = []  # (tick, multicast)
    t_last = 0
    if scen == "run":
        pass
    elif scen in ("stop", "stop-start", "stop-stop"):
        sc.at(t1, guarded(ann.stop, "ServiceAnnouncer.stop"), "e1")
        stops.append([t1, None])
        t_last = t1
        if scen == "stop-start":
            sc.at(t2, guarded(ann.start, "ServiceAnnouncer.start"), "e2", joinable=False)
            stops[-1][1] = t2
            t_last = t2
        elif scen == "stop-stop":
            sc.at(t2, guarded(ann.stop, "second ServiceAnnouncer.stop"), "e2")
            t_last = t2
    elif scen in ("finduc-stop", "findmc-stop", "find2uc-stop"):
        mc = scen == "findmc-stop"
        sc.at(t1, lambda: prot.datagram_received(find, P, mc), "e1")
        finds.append((t1, mc))
        if scen == "find2uc-stop":
            # the same peer asks twice (two answers wait in its send queue)
            find_b = bytes(wire.sd_message(2, 0xC0, [wire.sd_entry_bytes(wire.T_FIND, 0, 0, 0, 0, SVC[0], 0xFFFF, 0xFF, 3, 0xFFFFFFFF)], []))
            sc.at(t1, lambda: prot.datagram_received(find_b, P, False), "e1b")
            finds.append((t1, False))
        sc.at(t2, guarded(ann.stop, "ServiceAnnouncer.stop"), "e2")
        stops.append([t2, None])
        t_last = t2
    elif scen in ("stop-finduc", "stop-findmc", "svcstop-finduc", "two-stop-find"):
        if scen in ("svcstop-finduc", "two-stop-find"):
            sc.at(t1, guarded(lambda: ann.stop_announce_service(insts[0]), "stop_announce_service"), "e1")
        else:
            sc.at(t1, guarded(ann.stop, "ServiceAnnouncer.stop"), "e1")
        stops.append([t1, None])
        mc = scen == "stop-findmc"
        sc.at(t2, lambda: prot.datagram_received(find, P, mc), "e2")
        finds.append((t2, mc))
        t_last = t2
    elif scen == "lost":
        sc.at(t1, lambda: prot.connection_lost(None), "e1")
        stops.append([t1, None])
        t_last = t1
    elif scen == "helper":
        sc.at(t1, guarded(lambda: helper.stop_announce(ann), "SimpleService.stop_announce"), "e1")
        stops.append([t1, None])
        t_last = t1
    sc.flush()
    H = t_last + HORIZON
    loop.settle(H)
    loop_clean(E, loop)
    E.reach("h10.end")
    E.require(not errors, "stopping an already stopped announcer, and stopping a service through the helper that started it, succeed without error", {"errors": errors})

    # ------------------------------------------------------------------ observations
    seq = []  # transmitted entry sequence of instance 1
    for n, (t, data, addr) in enumerate(tr.sent):
        for msg in wire.parse_someip_all(data):
            sdm = wire.parse_sd(msg["payload"])
            for e in sdm["entries"]:
                if e["type"] == wire.T_OFFER and e["service"] == SVC[0] and e["instance"] == SVC[1]:
                    seq.append({"t": t, "to": addr, "ttl": e["ttl"], "e": e, "opts": wire.entry_options(sdm, e), "dgram": n})
    E.observe([[x["t"], str(x["to"]), x["ttl"]] for x in seq])
    mcast = [x for x in seq if x["to"] == MC]
    uni = [x for x in seq if x["to"] != MC]
    for x in seq:
        if x["ttl"] != 0:
            E.reach("h10.offer")
            E.require(x["ttl"] == ttl and x["e"]["major"] == SVC[2] and x["e"]["minor"] == SVC[3], "every offer carries the configured TTL, ids and minor version")
            o1, o2 = x["opts"]
            E.require(len(o1) == 1 and len(o2) == 0 and o1[0]["type"] == wire.OPT_V4_ENDPOINT and wire.ip_option_fields(o1[0])["port"] == 30509, "every offer carries the service's options")
        else:
            E.reach("h10.stopoffer")
            E.require(x["to"] == MC, "StopOffer goes to the multicast group")
    E.require(all(x["to"] == P for x in uni), "unicast offers go to a requester only")

    # ------------------------------------------------------------------ lifetimes
    starts = [d for d in drawn if (d["lo"], d["hi"]) == (0, 100)]
    if scen == "two-stop-find":
        starts = starts[:1]  # draws alternate between the two instances; instance 1 draws first
    lifetimes = []
    segs, cur = [], []
    for x in mcast:
        if x["ttl"] == 0:
            segs.append((cur, x))
            cur = []
        else:
            cur.append(x)
    segs.append((cur, None))
    E.require(len(segs) <= len(stops) + 1, "at most one StopOffer per stop", {"stopoffers": len(segs) - 1, "stops": len(stops)})
    if len(starts) == 2 and len(segs) == 1:
        # stopped and restarted without any StopOffer: only legal when the first lifetime
        # never offered, so every offer belongs to the second lifetime (checked below:
        # the first lifetime's first offer must not have been due before the stop)
        segs = [([], None)] + segs
    for li in range(len(segs)):
        offers, stopoffer = segs[li]
        if li >= len(starts):
            E.require(not offers and stopoffer is None, "no multicast offers without a start", {"lifetime": li})
            continue
        q0 = starts[li]["at"] + starts[li]["v"]
        x_stop = stops[li][0] if li < len(stops) else None

        def q(k):
            if k <= R:
                return q0 + 10 * (2**k - 1)
            if not cyc:
                return None
            return q0 + 10 * (2**R - 1) + 1000 * (k - R)

        N = len(offers)
        for k, x in enumerate(offers):
            qk = q(k)
            E.require(qk is not None, "a non-cyclic instance sends 1 + repetitions offers and no more", {"sent": N, "repetitions": R})
            if qk is None:
                break
            E.require(E.And(x["t"] >= qk, x["t"] <= qk + C), "offer %d leaves at its scheduled instant: initial delay inside the window, repetitions at doubling gaps, then the cyclic period" % k, {"k": k})
            if x_stop is not None:
                E.require(qk <= x_stop, "no offer is scheduled after the stop")
        nxt = q(N)
        if nxt is not None:
            if x_stop is not None:
                E.require(nxt >= x_stop, "every offer scheduled before the stop was sent", {"sent": N})
            else:
                E.require(nxt > H - C, "every offer scheduled within the observation horizon was sent", {"sent": N})
        if x_stop is not None:
            if cyc:
                E.require((stopoffer is not None) == (N >= 1), "a cyclic instance sends exactly one StopOffer iff it had offered (none when stopped before its first offer)", {"offers": N, "stopoffer": stopoffer is not None})
            else:
                E.require(stopoffer is not None or N == 0, "a stopped instance that had offered sends a StopOffer", {"offers": N})
            if stopoffer is not None:
                E.require(E.And(stopoffer["t"] >= x_stop, stopoffer["t"] <= x_stop + C), "the StopOffer leaves at the stop (within the collection timeout)")
        else:
            E.require(stopoffer is None, "no StopOffer without a stop")
    # ------------------------------------------------------------------ nothing follows a StopOffer
    for li, (offers, stopoffer) in enumerate(segs):
        if stopoffer is None:
            continue
        restart = stops[li][1] if li < len(stops) else None
        pos = seq.index(stopoffer)
        after = [x for x in seq[pos + 1 :] if x["ttl"] != 0]
        if restart is None:
            E.require(not after, "after the StopOffer no offer with a non-zero TTL is sent to anyone until the instance is started again (not even a delayed FindService answer)", {"after": [[str(x["to"]), x["ttl"]] for x in after], "case": case["scen"]})
        else:
            E.require(all(x["to"] == MC for x in after), "after the StopOffer only the restarted instance's multicast offers follow")
            for x in after:
                E.require(x["t"] >= restart, "no offer between StopOffer and restart")
    # a stopped instance (with or without StopOffer) does not answer finds
    for (tf, mcf) in finds:
        for s in stops:
            if s[1] is None and scen in ("stop-finduc", "stop-findmc", "svcstop-finduc", "two-stop-find"):
                E.require(not uni, "a stopped instance stays silent to FindService", {"answers": len(uni)})


SCENARIOS = {"H10": h10}

"""Shared pieces of the harnesses: addresses, recording transports/listeners, the
virtual-loop fixture with per-path teardown, decoding of transmitted datagrams with
the independent wire reader."""
from __future__ import annotations

import asyncio

from oracle import wire
from symx.vloop import SCALE, Ticks, VirtualLoop

MC = ("224.0.0.1", 30490)
P = ("192.0.2.1", 30490)
Q = ("192.0.2.2", 30490)
R = ("192.0.2.3", 30490)
PEERS = {"P": P, "Q": Q, "R": R, "MC": MC}
TTL_FOREVER = 0xFFFFFF


def tobytes(d):
    """concrete bytes of a transmitted buffer (concretises symbolic content)"""
    if isinstance(d, (bytes, bytearray)):
        return bytes(d)
    return bytes(int(x) for x in d)


class RecTransport:
    """datagram transport that records (tick, data, addr)"""

    def __init__(self, loop=None, sockname=("192.0.2.100", 30509)):
        self.loop = loop
        self.sent = []
        self.sockname = sockname
        self.closed = False

    def sendto(self, data, addr=None):
        self.sent.append((self.loop.time() if self.loop is not None else None, data, addr))

    def get_extra_info(self, key, default=None):
        if key == "sockname":
            return self.sockname
        return default

    def close(self):
        self.closed = True


def new_loop(E):
    """fresh VirtualLoop for this path; registers the per-path teardown"""
    loop = VirtualLoop(E if E.symbolic else None)
    loop.E = E
    asyncio.set_event_loop(loop)
    prev = E.teardown

    def teardown():
        try:
            loop.shutdown()
        finally:
            asyncio.set_event_loop(None)
            if prev:
                prev()

    E.teardown = teardown
    return loop


def stub_uniform(E, M, prefix="u", fixed=None):
    """random.uniform in someip.sd -> fresh symbolic tick count in [a, b]"""
    cnt = [0]
    drawn = []

    def uniform(a, b):
        import asyncio

        lo, hi = round(a * SCALE), round(b * SCALE)
        cnt[0] += 1
        v = fixed(lo, hi, cnt[0]) if fixed is not None else None
        if v is not None:
            pass
        elif lo == hi:
            v = lo
        else:
            v = E.int("%s%d" % (prefix, cnt[0]), lo, hi)
        try:
            now = asyncio.get_event_loop().time()
        except Exception:  # noqa: BLE001
            now = None
        drawn.append({"v": v, "lo": lo, "hi": hi, "at": now})
        return Ticks(v)

    class _R:
        pass

    r = _R()
    r.uniform = uniform
    M.sd.random = r
    return drawn


def restore_random(M):
    import random

    M.sd.random = random


def loop_clean(E, loop, label="no exception reaches the event loop's exception handler"):
    """engine-level guard + oracle: nothing may reach the loop exception handler"""
    for ctx in loop.exceptions:
        exc = ctx.get("exception")
        if E.symbolic and isinstance(exc, (TypeError, AttributeError)) and "ym" in repr(exc):
            E.proxy_errors.append(repr(exc))
    E.require(not loop.exceptions, label, lambda: [repr(c.get("exception")) for c in loop.exceptions[:3]])


def sd_entries_sent(sent, only_to=None):
    """[(tick, addr, session, flags, entry-dict, (opts1, opts2))] decoded with the
    independent reader from the recorded datagrams (all must be well-formed)"""
    out = []
    for (t, data, addr) in sent:
        for msg in wire.parse_someip_all(data):
            sd = wire.parse_sd(msg["payload"])
            for e in sd["entries"]:
                out.append({"t": t, "to": addr, "session": msg["session"], "flags": sd["flags"], "e": e, "opts": wire.entry_options(sd, e)})
    if only_to is not None:
        out = [x for x in out if x["to"] == only_to]
    return out

"""C14 - client subscription messages mirror the requested subscription set."""
from __future__ import annotations

import itertools

from oracle import wire
from symx.vloop import Script

from .common import MC, P, Q, TTL_FOREVER, RecTransport, loop_clean, new_loop

PROPERTY = "C14"
BUDGET_S = {"quick": 900, "thorough": 7200}
STUBS = ["VirtualLoop (symbolic ticks; API calls injected at solver-chosen instants/iterations, also at the refresh instants)", "struct/bytes lowering"]
ASSUMPTIONS = [
    "histories of at most K calls from a fresh, not yet started subscriber; no duplicate subscribe of the same eventgroup to the same server; start/stop well formed",
    "the mirror server applies Subscribe (TTL > 0) / StopSubscribe (TTL 0) entries per destination in transmission order",
    "configurations: (TTL 5 s, refresh 3 s) and (infinite TTL, no refresh); gaps 0..7 s symbolic",
]
REACH = {"H14": ["h14.subscribe", "h14.stopsubscribe", "h14.refresh", "h14.end"]}
EGS = {
    "g1": dict(sid=0x3000, iid=1, maj=1, eg=5, sockname=("192.0.2.77", 4000), proto="UDP", v6=False),
    "g2": dict(sid=0x3001, iid=2, maj=3, eg=6, sockname=("2001:db8::77", 4001, 0, 0), proto="TCP", v6=True),
    # same local address and port as g1, other transport protocol
    "g3": dict(sid=0x3002, iid=1, maj=1, eg=7, sockname=("192.0.2.77", 4000), proto="TCP", v6=False),
}
SERVERS = {"P": P, "Q": Q}


def bounds(tier):
    return {"H14": "calls from {subscribe(eventgroup in {IPv4/UDP, IPv6/TCP}, server in {P,Q}), stop_subscribe(...), start, stop}: %s; plus K<=3 (T 4) over two eventgroups that share one local address and port but differ in the transport protocol; delivery iteration/batching symbolic; observed when idle after the last call and 7 s later" % ("K<=4 with gaps symbolic 0..7000 ms, and K=5 over one eventgroup with gaps 0..3500 ms" if tier == "thorough" else "K<=4 with gaps symbolic 0..3500 ms (before / at / after one refresh instant)")}


def _valid(seq):
    running = False
    req = set()
    first_srv = None
    for op in seq:
        if op[0] in ("sub", "unsub"):
            if first_srv is None:
                first_srv = op[2]
                if first_srv != "P":
                    return False
        if op[0] == "sub":
            if (op[1], op[2]) in req:
                return False
            req.add((op[1], op[2]))
        elif op[0] == "unsub":
            if (op[1], op[2]) not in req:
                return False
            req.discard((op[1], op[2]))
        elif op[0] == "start":
            if running:
                return False
            running = True
        elif op[0] == "stop":
            if not running:
                return False
            running = False
    return True


def cases(tier, seed):
    full = [["sub", g, s] for g in ("g1", "g2") for s in SERVERS] + [["unsub", g, s] for g in ("g1", "g2") for s in SERVERS] + [["start"], ["stop"]]
    shared = [["sub", g, "P"] for g in ("g1", "g3")] + [["unsub", g, "P"] for g in ("g1", "g3")] + [["start"]]
    core = [["sub", "g1", s] for s in SERVERS] + [["unsub", "g1", s] for s in SERVERS] + [["start"], ["stop"]]
    # (alphabet, K, maximal gap in ms)
    plan = [(full, 4, 3500), (shared, 3, 3500)] if tier == "quick" else [(full, 4, 7000), (core, 5, 3500), (shared, 4, 3500)]
    out, seen = [], set()
    for cfgname in ("finite", "forever"):
        # subscribed and running (settled), then three further calls for the same eventgroup
        for tail in itertools.product((["sub", "g1", "P"], ["unsub", "g1", "P"]), repeat=3):
            combo = (["sub", "g1", "P"], ["start"]) + tuple(tail)
            if _valid(combo):
                seen.add((cfgname, repr(combo)))
                out.append({"h": "H14", "cfg": cfgname, "ops": [list(o) for o in combo], "gap": 3500, "_w": 5})
    for cfgname in ("finite", "forever"):
        for alpha, K, gap in plan:
            for k in range(1, K + 1):
                for combo in itertools.product(alpha, repeat=k):
                    if not _valid(combo):
                        continue
                    if not any(o[0] == "start" for o in combo) and k > 1:
                        continue  # a never started subscriber sends nothing: covered by k == 1
                    key = (cfgname, repr(combo))
                    if key in seen:
                        continue
                    seen.add(key)
                    out.append({"h": "H14", "cfg": cfgname, "ops": [list(o) for o in combo], "gap": gap, "_w": k})
    return out


def h14(E, M, case):
    loop = new_loop(E)
    sd, cfg, hdr = M.sd, M.config, M.header
    finite = case["cfg"] == "finite"
    tm = sd.Timings(SUBSCRIBE_TTL=5 if finite else TTL_FOREVER, SUBSCRIBE_REFRESH_INTERVAL=3 if finite else None)
    prot = sd.ServiceDiscoveryProtocol(MC, timings=tm)
    tr = RecTransport(loop)
    prot.transport = tr
    sub = prot.subscriber
    egs = {k: cfg.Eventgroup(v["sid"], v["iid"], v["maj"], v["eg"], v["sockname"], getattr(hdr.L4Protocols, v["proto"])) for k, v in EGS.items()}
    sc = Script(loop, E)
    t = 0
    running = False
    requested = set()
    marks = []  # (tick, running, frozenset(requested)) after each call
    for i, op in enumerate(case["ops"]):
        t = t + E.int("dt%d" % i, 0, case["gap"])
        if op[0] == "sub":
            sc.at(t, lambda g=op[1], s=op[2]: sub.subscribe_eventgroup(egs[g], SERVERS[s]), "op%d" % i)
            requested.add((op[1], op[2]))
        elif op[0] == "unsub":
            sc.at(t, lambda g=op[1], s=op[2]: sub.stop_subscribe_eventgroup(egs[g], SERVERS[s]), "op%d" % i)
            requested.discard((op[1], op[2]))
        elif op[0] == "start":
            sc.at(t, sub.start, "op%d" % i, joinable=False)
            running = True
        else:
            sc.at(t, sub.stop, "op%d" % i)
            running = False
        marks.append((t, running, frozenset(requested)))
    sc.flush()
    loop.settle()

    def mirror(upto=None):
        held = {a: [] for a in SERVERS.values()}
        times = {}
        for (ts, data, addr) in tr.sent[:upto]:
            E.require(addr in held, "subscription messages go to a server the application named", {"to": str(addr)})
            for msg in wire.parse_someip_all(data):
                sdm = wire.parse_sd(msg["payload"])
                for e in sdm["entries"]:
                    E.require(e["type"] == wire.T_SUBSCRIBE, "the subscriber sends Subscribe / StopSubscribe entries only")
                    key = (e["service"], e["instance"], e["major"], e["eventgroup"], e["counter"])
                    g = [k for k, v in EGS.items() if (v["sid"], v["iid"], v["maj"], v["eg"], 0) == key]
                    E.require(len(g) == 1, "every entry names a requested eventgroup's ids", {"key": list(key)})
                    if not g:
                        continue
                    v = EGS[g[0]]
                    if e["ttl"] != 0:
                        E.reach("h14.subscribe")
                        E.require(e["ttl"] == (5 if finite else TTL_FOREVER), "Subscribe carries the configured TTL")
                        o1, o2 = wire.entry_options(sdm, e)
                        opts = list(o1) + list(o2)
                        E.require(len(opts) == 1, "Subscribe carries one endpoint option")
                        if len(opts) == 1:
                            f = wire.ip_option_fields(opts[0])
                            import ipaddress

                            want = ipaddress.ip_address(v["sockname"][0]).packed
                            E.require(opts[0]["type"] == (wire.OPT_V6_ENDPOINT if v["v6"] else wire.OPT_V4_ENDPOINT) and bytes(f["addr"]) == want and f["port"] == v["sockname"][1] and f["proto"] == (wire.PROTO_TCP if v["proto"] == "TCP" else wire.PROTO_UDP), "the endpoint option names the local address, port and transport protocol")
                        if key not in held[addr]:
                            held[addr].append(key)
                        times.setdefault((addr, key), []).append(ts)
                    else:
                        E.reach("h14.stopsubscribe")
                        if key in held[addr]:
                            held[addr].remove(key)
        return held, times

    def expect(running, requested):
        out = {a: [] for a in SERVERS.values()}
        if running:
            for (g, s) in requested:
                v = EGS[g]
                out[SERVERS[s]].append((v["sid"], v["iid"], v["maj"], v["eg"], 0))
        return out

    held, _ = mirror()
    want = expect(running, requested)
    E.observe([{str(a): sorted(v) for a, v in held.items()}])
    for a in SERVERS.values():
        E.require(sorted(held[a]) == sorted(want[a]), "a server applying the entries in order holds exactly the eventgroups currently requested from it while the subscriber runs, none after it was stopped", {"server": str(a), "held": sorted(held[a]), "want": sorted(want[a]), "ops": case["ops"]})
    n_idle = len(tr.sent)
    loop.settle(t + 7000)
    loop_clean(E, loop)
    E.reach("h14.end")
    held, times = mirror()
    for a in SERVERS.values():
        E.require(sorted(held[a]) == sorted(want[a]), "the mirror still holds after further refresh rounds", {"server": str(a), "held": sorted(held[a]), "want": sorted(want[a])})
    if running and finite:
        for (g, s) in requested:
            v = EGS[g]
            ts_list = [x for x in times.get((SERVERS[s], (v["sid"], v["iid"], v["maj"], v["eg"], 0)), [])]
            after = [x for x in ts_list]
            E.require(len(after) >= 1, "a requested subscription is transmitted")
            # from the last call on: no gap longer than the refresh interval, up to the horizon
            prev = None
            for x in after:
                if prev is not None:
                    E.require(E.Implies(prev >= t, x - prev <= 3000), "while a subscription stays requested it is sent again at least once per refresh interval")
                    if len(after) > 1:
                        E.reach("h14.refresh")
                prev = x
            if prev is not None:
                E.require(prev >= t + 7000 - 3000, "refreshes continue up to the observation horizon")
    if not finite:
        E.require(len(tr.sent) == n_idle, "with the infinite TTL nothing is re-sent later")


SCENARIOS = {"H14": h14}

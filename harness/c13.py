"""C13 - FindService is sent only for watched services not yet found, bounded in number."""
from __future__ import annotations

import itertools

from oracle import wire
from symx.vloop import Script

from .c07 import mk
from .common import MC, P, Q, TTL_FOREVER, RecTransport, loop_clean, new_loop, stub_uniform

PROPERTY = "C13"
BUDGET_S = {"quick": 900, "thorough": 7200}
STUBS = ["VirtualLoop (symbolic ticks)", "random.uniform: symbolic initial delay inside the window", "struct/bytes lowering (TTL bytes of offers symbolic)"]
ASSUMPTIONS = [
    "the client is started at 1000 ms; watchers are registered before; offers / stop-offers arrive anywhere in 0..2500 ms so that an offer can also expire between rounds",
    "at an exact tie between a round and an offer arrival, expiry or stop both outcomes are accepted for that filter",
    "a filter whose last listener was removed stays a key of the watch table (no unwatch in this property's quantifier)",
]
REACH = {"H13": ["h13.round", "h13.all-found", "h13.end"]}
W = 0xFFFF
FILTERS = {"f_any": (0x1000,), "f_exact": (0x1000, 1, 1, 0), "f_maj": (0x1001, W, 1), "f_none": (0x1002,)}
SERVICES = {"a": (0x1000, 1, 1, 0), "b": (0x1000, 2, 1, 0), "c": (0x1001, 5, 1, 3), "d": (0x1003, 1, 1, 0)}
START = 1000


def _fmatch(f, s):
    f = tuple(f) + (W, 0xFF, 0xFFFFFFFF)[len(f) - 1 :]
    return f[0] == s[0] and f[1] in (W, s[1]) and f[2] in (0xFF, s[2]) and f[3] in (0xFFFFFFFF, s[3])


def bounds(tier):
    return {"H13": "watched filter sets of 1..%d filters (incl. wildcards); repetitions {0,1,2%s}, base delay {10, 40} ms; initial delay symbolic in 0..100 ms; 0..2 offers (service from 4, TTL symbolic 1..3 s or infinite) and an optional stop-offer at symbolic instants in 0..2500 ms, from two sources" % ((4, ",4") if tier == "thorough" else (2, ""))}


def cases(tier, seed):
    fsets = [["f_any"], ["f_exact"], ["f_any", "f_exact"], ["f_exact", "f_maj"], ["f_maj", "f_none"]]
    if tier == "thorough":
        fsets += [["f_any", "f_exact", "f_maj"], ["f_any", "f_exact", "f_maj", "f_none"]]
    evsets = [[], [["offer", "a"]], [["offer", "b"]], [["offer", "d"]], [["offer", "a"], ["stop", "a"]], [["offer", "a"], ["offer", "c"]], [["offer", "c"], ["offer", "a"]], [["offer", "a"], ["offer", "a"]]]
    if tier == "thorough":
        evsets += [[["offer", "b"], ["offer", "c"]], [["offer", "a"], ["stop", "a"], ["offer", "a"]], [["offer", "c"], ["stop", "c"]]]
    out = []
    # offer, stop-offer, re-offer of the same service within the first offer's TTL (fixed
    # TTLs 1 s / infinite): a timer left over from the withdrawn offer must not hit the new one
    out.append({"h": "H13", "filters": ["f_exact", "f_none"], "rep": 2, "base": 40, "evs": [["offer", "a"], ["stop", "a"], ["offer", "a"]], "ttls": [1, 0, "inf"], "_w": 12})
    # two live offers (infinite TTL) match the wildcard filter, one goes away again
    out.append({"h": "H13", "filters": ["f_any"], "rep": 2, "base": 10, "evs": [["offer", "a"], ["offer", "b"], ["stop", "a"]], "inf": True, "_w": 12})
    out.append({"h": "H13", "filters": ["f_any", "f_maj"], "rep": 1, "base": 10, "evs": [["offer", "b"], ["offer", "a"], ["stop", "b"]], "inf": True, "_w": 12})
    for fs in fsets:
        for R in ((0, 1, 2, 4) if tier == "thorough" else (0, 1, 2)):
            for base in (10, 40):
                for evs in evsets:
                    if tier == "quick" and base == 40 and (R != 2 or len(evs) > 1):
                        continue
                    if tier == "quick" and len(evs) > 1 and (R == 1 or len(fs) > 1 and R == 0):
                        continue
                    if tier == "thorough" and (len(evs) > 2 and (R > 2 or len(fs) > 2) or len(fs) > 3 and len(evs) > 1 or R == 4 and len(evs) > 1 and base == 40):
                        continue
                    out.append({"h": "H13", "filters": fs, "rep": R, "base": base, "evs": evs, "_w": 1 + len(evs) * 3 + R})
    return out


def h13(E, M, case):
    loop = new_loop(E)
    sd, cfg = M.sd, M.config
    drawn = stub_uniform(E, M)
    R, base = case["rep"], case["base"]
    tm = sd.Timings(INITIAL_DELAY_MIN=0.0, INITIAL_DELAY_MAX=0.1, REPETITIONS_MAX=R, REPETITIONS_BASE_DELAY=base / 1000, FIND_TTL=7)
    prot = sd.ServiceDiscoveryProtocol(MC, timings=tm)
    tr = RecTransport(loop)
    prot.transport = tr
    for f in case["filters"]:
        prot.discovery.watch_service(cfg.Service(*FILTERS[f]), sd.ClientServiceListener())
    sc = Script(loop, E)
    # events sorted by their (symbolic) instants: generate instants in script order
    evs = case["evs"]
    t = 0
    offers = []  # dict(svc, src, t, ttl, stop_t)
    started = False
    sess = {"P": 0}
    t_start_bound = START

    def start_cb():
        prot.discovery.start()

    pending = list(evs)
    # the start is one more event in the timeline; its position relative to the others is
    # symbolic: choose how many of the events come before it
    nbefore = E.choice("events_before_start", len(evs) + 1)
    timeline = pending[:nbefore] + [["start"]] + pending[nbefore:]
    for i, ev in enumerate(timeline):
        if ev[0] == "start":
            E.assume(t <= START)
            t = START
            sc.at(t, start_cb, "start", joinable=False)
            continue
        t = t + E.int("dt%d" % i, 0, 2500)
        E.assume(t <= 2500)
        s = SERVICES[ev[1]]
        sess["P"] += 1
        if ev[0] == "offer":
            if case.get("ttls"):
                k_ev = [k for k, e in enumerate(evs) if e is ev][0]
                ttl = TTL_FOREVER if case["ttls"][k_ev] == "inf" else case["ttls"][k_ev]
            elif case.get("inf"):
                ttl = TTL_FOREVER
            else:
                ttl = E.int("ttl%d" % i, 1, 3) if not E.flag("forever%d" % i) else TTL_FOREVER
            offers.append({"svc": ev[1], "t": t, "ttl": ttl, "stop": None})
        else:
            ttl = 0
            for o in offers:
                if o["svc"] == ev[1] and o["stop"] is None:
                    o["stop"] = t
        entry = wire.sd_entry_bytes(wire.T_OFFER, 0, 0, 0, 0, s[0], s[1], s[2], ttl, s[3])
        data = mk(E, wire.sd_message(sess["P"], 0xC0, [entry], []))
        sc.at(t, lambda d=data: prot.datagram_received(d, P, False), "ev%d" % i)
    sc.flush()
    loop.settle(4000)
    loop_clean(E, loop)
    E.reach("h13.end")
    rounds = []
    for (ts, data, addr) in tr.sent:
        for msg in wire.parse_someip_all(data):
            sdm = wire.parse_sd(msg["payload"])
            rounds.append({"t": ts, "to": addr, "entries": sdm["entries"]})
    E.observe([[r["t"], [[e["service"], e["instance"], e["major"], e["minor"], e["ttl"]] for e in r["entries"]]] for r in rounds])
    starts = [d for d in drawn if (d["lo"], d["hi"]) == (0, 100)]
    E.require(len(starts) == 1, "one initial delay is drawn")
    u = starts[0]["v"]
    E.require(len(rounds) <= 1 + R, "at most 1 + repetitions FindService rounds are sent", {"rounds": len(rounds)})

    def r_time(k):
        return START + u + base * (2**k - 1)

    def _later(o):
        return [x for x in offers if x is not o and x["svc"] == o["svc"] and offers.index(x) > offers.index(o)]

    def found_certain(f, at):
        """some matching offer arrived strictly before `at`, is within its TTL, was not
        withdrawn, and no later offer for the same service (which would replace its
        deadline) arrived up to `at`"""
        conds = []
        for o in offers:
            if _fmatch(FILTERS[f], SERVICES[o["svc"]]):
                alive = E.Or(o["ttl"] == TTL_FOREVER, o["t"] + o["ttl"] * 1000 > at)
                notstopped = True if o["stop"] is None else o["stop"] > at
                current = E.And(*[x["t"] > at for x in _later(o)])
                conds.append(E.And(o["t"] < at, alive, notstopped, current))
        return E.Or(*conds) if conds else False

    def unfound_certain(f, at):
        """every matching offer arrives strictly after `at`, or has certainly expired,
        been withdrawn or been replaced by a later offer before `at`"""
        conds = []
        for o in offers:
            if _fmatch(FILTERS[f], SERVICES[o["svc"]]):
                dead = E.And(o["ttl"] != TTL_FOREVER, o["t"] + o["ttl"] * 1000 < at)
                stopped = False if o["stop"] is None else o["stop"] < at
                replaced = E.Or(*[x["t"] < at for x in _later(o)]) if _later(o) else False
                conds.append(E.Or(o["t"] > at, dead, stopped, replaced))
        return E.And(*conds) if conds else True

    for k, r in enumerate(rounds):
        E.reach("h13.round")
        E.require(r["to"] == MC, "FindService goes to the multicast group")
        E.require(r["t"] == r_time(k), "round %d leaves after the initial delay plus the doubling repetition delays" % k, {"k": k})
        listed = set()
        for e in r["entries"]:
            E.require(e["type"] == wire.T_FIND and e["ttl"] == 7 and e["n1"] == 0 and e["n2"] == 0, "rounds consist of FindService entries with the configured find TTL")
            fl = [f for f in case["filters"] if (e["service"], e["instance"], e["major"], e["minor"]) == (tuple(FILTERS[f]) + (W, 0xFF, 0xFFFFFFFF)[len(FILTERS[f]) - 1 :])]
            E.require(len(fl) == 1, "every entry names a watched filter's ids, wildcards preserved", {"entry": [e["service"], e["instance"], e["major"], e["minor"]]})
            listed.update(fl)
        E.require(len(listed) == len(r["entries"]), "no filter is listed twice")
        for f in case["filters"]:
            E.require(E.Implies(found_certain(f, r["t"]), f not in listed), "a watched service with a live matching offer is not searched for", {"round": k, "filter": f})
            E.require(E.Implies(unfound_certain(f, r["t"]), f in listed), "every watched service without a live matching offer is listed in every round", {"round": k, "filter": f})
    N = len(rounds)
    if N < 1 + R:
        E.reach("h13.all-found")
        at = r_time(N)
        for f in case["filters"]:
            E.require(E.Not(unfound_certain(f, at)), "rounds stop early only when every watched service is found", {"rounds": N, "filter": f})


SCENARIOS = {"H13": h13}

"""C07 - peer reboot detected exactly, per sender and channel; fan-out exactly once."""
from __future__ import annotations

from oracle import wire

from .common import MC, P, Q, RecTransport, loop_clean, new_loop

PROPERTY = "C07"
SENDERS = [P, Q]
BUDGET_S = {"quick": 600, "thorough": 1800}
STUBS = ["event loop: VirtualLoop (selector/clock replaced, asyncio scheduling code kept)", "struct/bytes lowering (H07b decodes symbolic session-id and flag bytes)"]
ASSUMPTIONS = [
    "H07a: previous session id 0 is outside the claim (illegal in SOME/IP-SD); the assertion is conditional on old_id >= 1 but the query ranges over 0..0xFFFF so that the hole cannot widen unnoticed",
    "H07b: histories of length <= K from the initial (empty) memory; H07a covers arbitrary memory by induction",
]
REACH = {"H07a": ["h07a.checked"], "H07b": ["h07b.detected", "h07b.not-detected", "h07b.end"], "H07c": ["h07c.detected", "h07c.not-detected"], "H07d": ["h07d.two", "h07d.end"]}


def bounds(tier):
    return {
        "H07a": "one check_received step from an arbitrary memory: 2 senders x 2 channels, key present/absent, old flag, old id 0..0xFFFF, new flag, new id 0..0xFFFF all symbolic; three foreign entries symbolic",
        "H07c": "one datagram (SD / non-SD / truncated; 2 senders x 2 channels) through ServiceDiscoveryProtocol.datagram_received from an arbitrary session memory (every (sender, channel) entry present or absent, flags and ids symbolic): the inductive step at protocol level - covers histories of any length incl. interference between channels and senders",
        "H07d": "two SD datagrams (same sender on one or both channels, or two senders) handled in one loop iteration, from an arbitrary memory: every detection reaches all three components",
        "H07b": "K=%d SD datagrams through ServiceDiscoveryProtocol.datagram_received; per datagram: sender in {P,Q}, channel in {unicast,multicast}, kind in {SD, non-SD method, truncated SD payload}; session id 16-bit symbolic, reboot flag symbolic" % (4 if tier == "thorough" else 2),
    }


def cases(tier, seed):
    out = [{"h": "H07a"}]
    for si in range(2):
        for ci in range(2):
            for kind in ("sd", "nonsd", "trunc"):
                out.append({"h": "H07c", "step": [si, ci, kind]})
    for s1, c1 in ((0, 0), (0, 1)):
        for s2, c2 in ((0, 0), (0, 1), (1, 0)):
            out.append({"h": "H07d", "steps": [[s1, c1], [s2, c2]]})
    K = 4 if tier == "thorough" else 2
    kinds = ["sd", "sd", "nonsd", "trunc"]  # alphabet per step: (sender, channel, kind)
    import itertools

    steps = [(s, c, k) for s in range(2) for c in range(2) for k in ("sd", "nonsd", "trunc")]
    for k in range(1, K + 1):
        for combo in itertools.product(steps, repeat=k):
            # keep histories where at most one message is not a plain SD message (the others
            # are exercised by the last position) to bound the product
            if sum(1 for x in combo if x[2] != "sd") > 1:
                continue
            out.append({"h": "H07b", "steps": [list(x) for x in combo]})
    del kinds
    return out


def h07a(E, M, case):
    st = M.sd._SessionStorage()
    keys = [(s, mc) for s in SENDERS for mc in (False, True)]
    ki = E.choice("key", len(keys))
    key = keys[ki]
    # foreign entries: always present, arbitrary content
    foreign = {}
    for j, k in enumerate(keys):
        if j == ki:
            continue
        foreign[k] = (E.bool("f_flag%d" % j), E.int("f_id%d" % j, 0, 0xFFFF))
        st.incoming[k] = foreign[k]
    present = E.flag("present")
    old_flag = E.bool("old_flag")
    old_id = E.int("old_id", 0, 0xFFFF)
    if present:
        st.incoming[key] = (old_flag, old_id)
    flag = E.bool("flag")
    sid = E.int("sid", 0, 0xFFFF)
    r = st.check_received(key[0], key[1], flag, sid)
    E.observe(["result", r])
    E.reach("h07a.checked")
    spec = E.And(present, flag, E.Or(E.Not(old_flag), old_id >= sid))
    E.require(E.Implies(E.Or(E.Not(present), old_id >= 1), E.Iff(r, spec)), "reboot signalled exactly when flag 0->1 or flag stays set and id does not increase")
    # the hole for old_id == 0 must not be wider than "no detection by id comparison"
    E.require(E.Implies(E.And(present, old_id == 0), E.Iff(r, E.And(flag, E.Not(old_flag)))), "old id 0: only the flag transition is evaluated")
    nf, nid = st.incoming[key]
    E.require(E.And(E.eq(nf, flag), nid == sid), "memory of the key becomes (flag, id)")
    E.require(len(st.incoming) == 4, "no other key appears")
    for k, (ff, fid) in foreign.items():
        g = st.incoming[k]
        E.require(E.And(E.eq(g[0], ff), g[1] == fid), "foreign entries untouched")


def h07b(E, M, case):
    loop = new_loop(E)
    prot = M.sd.ServiceDiscoveryProtocol(MC)
    prot.transport = RecTransport(loop)
    calls = {"discovery": [], "subscriber": [], "announcer": []}
    for name in calls:
        comp = getattr(prot, name)
        comp.reboot_detected = (lambda n: (lambda addr: calls[n].append(addr)))(name)
    mem = {}
    offer = wire.sd_entry_bytes(wire.T_OFFER, 0, 0, 0, 0, 0x1234, 1, 1, 3, 0)
    t = 0
    for i, (si, ci, kind) in enumerate(case["steps"]):
        sender, mc = SENDERS[si], bool(ci)
        flag = E.bool("flag%d" % i)
        sid = E.int("sid%d" % i, 1, 0xFFFF)
        flags = E.ite(flag, 0xC0, 0x40)
        payload = wire.sd_payload(flags, [offer], [])
        if kind == "sd":
            data = wire.someip_bytes(wire.SD_SERVICE, wire.SD_METHOD, 0, sid, 1, 2, 0, payload)
        elif kind == "nonsd":
            data = wire.someip_bytes(wire.SD_SERVICE, wire.SD_METHOD + 1, 0, sid, 1, 2, 0, payload)
        else:
            data = wire.someip_bytes(wire.SD_SERVICE, wire.SD_METHOD, 0, sid, 1, 2, 0, payload[:-3])
        data = mk(E, data)
        before = {n: len(c) for n, c in calls.items()}
        t += 10
        loop.deliver(t, lambda d=data, s=sender, m=mc: prot.datagram_received(d, s, m), may_defer=False)
        loop.settle()
        key = (sender, mc)
        if kind == "sd":
            if key in mem:
                of, oi = mem[key]
                expect = E.And(flag, E.Or(E.Not(of), oi >= sid))
            else:
                expect = False
            mem[key] = (flag, sid)
        else:
            expect = False
        for n, c in calls.items():
            new = c[before[n] :]
            E.observe([i, n, len(new)])
            E.require(len(new) <= 1, "a detection reaches each component at most once")
            E.require(E.Iff(expect, len(new) == 1), "detection reaches discovery, subscriber and announcer exactly when the rule says so", {"component": n, "step": i, "calls": len(new)})
            E.require(all(a == sender for a in new), "the rebooted sender's address is passed on")
        if len(calls["discovery"]) > before["discovery"]:
            E.reach("h07b.detected")
        else:
            E.reach("h07b.not-detected")
    loop_clean(E, loop)
    E.reach("h07b.end")


def h07c(E, M, case):
    """protocol-level inductive step: arbitrary memory, one datagram"""
    loop = new_loop(E)
    prot = M.sd.ServiceDiscoveryProtocol(MC)
    prot.transport = RecTransport(loop)
    calls = {"discovery": [], "subscriber": [], "announcer": []}
    for name in calls:
        getattr(prot, name).reboot_detected = (lambda n: (lambda addr: calls[n].append(addr)))(name)
    keys = [(s, mc) for s in SENDERS for mc in (False, True)]
    mem = {}
    for j, k in enumerate(keys):
        if E.flag("present%d" % j):
            mem[k] = (E.bool("m_flag%d" % j), E.int("m_id%d" % j, 1, 0xFFFF))
            prot.session_storage.incoming[k] = mem[k]
    si, ci, kind = case["step"]
    sender, mc = SENDERS[si], bool(ci)
    flag = E.bool("flag")
    sid = E.int("sid", 1, 0xFFFF)
    offer = wire.sd_entry_bytes(wire.T_OFFER, 0, 0, 0, 0, 0x1234, 1, 1, 3, 0)
    payload = wire.sd_payload(E.ite(flag, 0xC0, 0x40), [offer], [])
    if kind == "sd":
        data = wire.someip_bytes(wire.SD_SERVICE, wire.SD_METHOD, 0, sid, 1, 2, 0, payload)
    elif kind == "nonsd":
        data = wire.someip_bytes(wire.SD_SERVICE, wire.SD_METHOD, 0, sid, 2, 2, 0, payload)
    else:
        data = wire.someip_bytes(wire.SD_SERVICE, wire.SD_METHOD, 0, sid, 1, 2, 0, payload[:-5])
    data = mk(E, data)
    loop.deliver(5, lambda: prot.datagram_received(data, sender, mc), may_defer=False)
    loop.settle()
    loop_clean(E, loop)
    key = (sender, mc)
    if kind == "sd" and key in mem:
        of, oi = mem[key]
        expect = E.And(flag, E.Or(E.Not(of), oi >= sid))
    else:
        expect = False
    for n, c in calls.items():
        E.observe([n, len(c)])
        E.require(len(c) <= 1 and all(a == sender for a in c), "a detection reaches each component at most once, with the sender's address")
        E.require(E.Iff(expect, len(c) == 1), "reboot signalled exactly by the rule, from any memory: other senders and the other channel neither trigger nor mask it", {"component": n, "calls": len(c)})
    E.reach("h07c.detected" if calls["discovery"] else "h07c.not-detected")
    inc = prot.session_storage.incoming
    want = dict(mem)
    if kind == "sd":
        want[key] = (flag, sid)
    E.require(sorted(map(repr, inc)) == sorted(map(repr, want)), "memory holds exactly the previous keys plus the sender's (undecodable messages add nothing)", {"have": sorted(map(repr, inc)), "want": sorted(map(repr, want))})
    for k, (f, i) in want.items():
        if k in inc:
            E.require(E.And(E.eq(inc[k][0], f), inc[k][1] == i), "entries of other senders / the other channel are untouched; the sender's entry becomes (flag, id)", {"key": repr(k)})


def h07d(E, M, case):
    """two SD datagrams handled in ONE loop iteration (e.g. the first multicast and the first
    unicast message of a restarted peer), from an arbitrary memory"""
    loop = new_loop(E)
    prot = M.sd.ServiceDiscoveryProtocol(MC)
    prot.transport = RecTransport(loop)
    calls = {"discovery": [], "subscriber": [], "announcer": []}
    for name in calls:
        getattr(prot, name).reboot_detected = (lambda n: (lambda addr: calls[n].append(addr)))(name)
    keys = [(s, mc) for s in SENDERS for mc in (False, True)]
    mem = {}
    for j, k in enumerate(keys):
        mem[k] = (E.bool("m_flag%d" % j), E.int("m_id%d" % j, 1, 0xFFFF))
        prot.session_storage.incoming[k] = mem[k]
    offer = wire.sd_entry_bytes(wire.T_OFFER, 0, 0, 0, 0, 0x1234, 1, 1, 3, 0)
    cbs, expect = [], []
    for i, (si, ci) in enumerate(case["steps"]):
        sender, mc = SENDERS[si], bool(ci)
        flag, sid = E.bool("flag%d" % i), E.int("sid%d" % i, 1, 0xFFFF)
        data = mk(E, wire.someip_bytes(wire.SD_SERVICE, wire.SD_METHOD, 0, sid, 1, 2, 0, wire.sd_payload(E.ite(flag, 0xC0, 0x40), [offer], [])))
        of, oi = mem[(sender, mc)]
        expect.append((sender, E.And(flag, E.Or(E.Not(of), oi >= sid))))
        mem[(sender, mc)] = (flag, sid)
        cbs.append(lambda d=data, s=sender, m=mc: prot.datagram_received(d, s, m))
    loop.deliver(5, cbs, may_defer=False)
    loop.settle()
    loop_clean(E, loop)
    E.reach("h07d.end")
    both = E.And(expect[0][1], expect[1][1])
    one = E.And(E.Or(expect[0][1], expect[1][1]), E.Not(both))
    none = E.Not(E.Or(expect[0][1], expect[1][1]))
    for n, c in calls.items():
        E.observe([n, len(c)])
        total = len(c)
        E.require(E.And(E.Implies(both, total == 2), E.Implies(one, total == 1), E.Implies(none, total == 0)), "each detection reaches discovery, subscriber and announcer exactly once - also two detections within one loop iteration", {"component": n, "calls": total})
        if total == 2:
            E.reach("h07d.two")
            E.require(c[0] == expect[0][0] and c[1] == expect[1][0], "with the respective sender's address, in order")


def mk(E, items):
    if E.symbolic:
        from symx.symbytes import mk_bytes

        return mk_bytes(items)
    return bytes(items)


SCENARIOS = {"H07a": h07a, "H07b": h07b, "H07c": h07c, "H07d": h07d}

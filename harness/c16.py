"""C16 - method calls get exactly one correctly correlated reply."""
from __future__ import annotations

from oracle import wire

from .c07 import mk
from .common import P, RecTransport

PROPERTY = "C16"
BUDGET_S = {"quick": 600, "thorough": 900}
STUBS = ["struct/bytes/enum lowering", "SimpleService.methods: equality-scan dict (ScanDict) so that a symbolic method id is compared, not hashed"]
ASSUMPTIONS = [
    "one message per datagram with a consistent length field (concatenation and bad lengths: C01/C03)", "one history variant: a method registered at run time after a request for it had been refused",
    "handlers: 0x0010 returns bytes derived from the request payload, 0x0011 returns None, 0x0012 raises MalformedMessageError; other handler exceptions are outside the statement",
]
REACH = {"H16": ["h16.response", "h16.error", "h16.silent", "h16.undecodable", "h16.multicast"]}
SVC, MAJOR = 0x4321, 2


def bounds(tier):
    n = 6 if tier == "thorough" else 2
    return {"H16": "every header byte symbolic (service, method, client, session 16 bit; protocol version, interface version, message type, return code 8 bit, incl. undefined codes), payload of 0..%d symbolic bytes, unicast/multicast symbolic, three handlers" % n}


def cases(tier, seed):
    n = 6 if tier == "thorough" else 2
    return [{"h": "H16", "plen": k} for k in range(n + 1)] + [{"h": "H16", "plen": 0, "late": True}, {"h": "H16", "plen": 1, "late": True}]


def h16(E, M, case):
    hdr = M.header

    class Svc(M.service.SimpleService):
        service_id = SVC
        version_major = MAJOR
        version_minor = 0

    svc = Svc(7)
    tr = RecTransport()
    svc.transport = tr
    calls = []

    def h_bytes(msg, addr):
        calls.append(0x10)
        return msg.payload + b"!"

    def h_none(msg, addr):
        calls.append(0x11)
        return None

    def h_bad(msg, addr):
        calls.append(0x12)
        raise M.service.MalformedMessageError("bad")

    svc.register_method(0x10, h_bytes)
    svc.register_method(0x11, h_none)
    svc.register_method(0x12, h_bad)
    if E.symbolic:
        from symx.symbytes import ScanDict

        svc.methods = ScanDict(svc.methods)

    late = bool(case.get("late"))
    if late:
        # method 0x13 is registered only after a request for it was answered "unknown method"
        mt0 = E.pick("mtype0", [0, 1])
        svc.datagram_received(mk(E, wire.someip_bytes(SVC, 0x13, 1, 2, MAJOR, mt0, 0, [])), P, False)
        E.require(len(tr.sent) == 1 and not calls, "a request for a method that is not registered yet gets one error reply")

        def h_late(msg, addr):
            calls.append(0x13)
            return msg.payload + b"!"

        svc.register_method(0x13, h_late)
        del tr.sent[:]
    sid, mid = E.int("service", 0, 0xFFFF), E.int("method", 0, 0xFFFF)
    cid, ssn = E.int("client", 0, 0xFFFF), E.int("session", 0, 0xFFFF)
    pv, iv = E.int("proto", 0, 0xFF), E.int("iface", 0, 0xFF)
    mt, rc = E.int("mtype", 0, 0xFF), E.int("rcode", 0, 0xFF)
    payload = [E.int("p%d" % i, 0, 255) for i in range(case["plen"])]
    data = mk(E, wire.someip_bytes(sid, mid, cid, ssn, iv, mt, rc, payload, proto=pv))
    multicast = E.flag("multicast")
    svc.datagram_received(data, P, multicast)
    n = len(tr.sent)
    E.observe(["sent", n, list(calls)])
    E.require(n <= 1, "at most one reply per message")
    try:
        wire.parse_someip(data)
        decodable = True
    except wire.WireError:
        decodable = False
    if not decodable:
        E.reach("h16.undecodable")
        E.require(n == 0 and not calls, "an undecodable message is neither answered nor dispatched")
        return
    if multicast:
        E.reach("h16.multicast")
        E.require(n == 0 and not calls, "messages received over multicast are never answered")
        return
    known = E.Or(mid == 0x10, mid == 0x11, mid == 0x12, E.And(late, mid == 0x13))
    is_req = E.Or(mt == 0, mt == 1)
    chain_ok = E.And(sid == SVC, iv == MAJOR, known, is_req, rc == 0)
    exp_err = E.ite(sid != SVC, 2, E.ite(iv != MAJOR, 8, E.ite(E.Not(known), 3, E.ite(E.Not(is_req), 10, E.ite(rc != 0, 10, E.ite(mid == 0x12, 9, -1))))))
    exp_resp = E.And(chain_ok, E.Or(mid == 0x10, mid == 0x13), mt == 0)
    E.require(E.Iff(n == 1, E.Or(exp_err != -1, exp_resp)), "a reply is sent exactly for failed checks and for REQUESTs whose handler returned a payload", {"sent": n})
    E.require(E.Iff(len(calls) == 1, chain_ok), "the handler runs exactly when every check passed")
    E.require(len(calls) <= 1, "handler runs at most once")
    if calls:
        E.require(mid == calls[0], "the handler registered for the method id is the one called")
    if n == 0:
        E.reach("h16.silent")
        return
    _, rdata, raddr = tr.sent[0]
    E.require(raddr == P, "the reply goes to the sender only")
    msgs = wire.parse_someip_all(rdata)
    E.require(len(msgs) == 1, "the reply is one SOME/IP message")
    r = msgs[0]
    E.observe(["reply", r["mtype"], r["rcode"], r["service"], r["method"], r["client"], r["session"], r["iface"], list(r["payload"])])
    E.require(E.And(r["service"] == sid, r["method"] == mid, r["client"] == cid, r["session"] == ssn, r["iface"] == iv, r["proto"] == 1), "the reply echoes service, method, client and session ids and the interface version")
    if r["mtype"] == 0x80:
        E.reach("h16.response")
    else:
        E.reach("h16.error")
    E.require(E.Implies(exp_resp, E.And(r["mtype"] == 0x80, r["rcode"] == 0, E.eq(mk(E, r["payload"]), mk(E, payload + [0x21])))), "RESPONSE with return code OK and the handler's payload")
    E.require(E.Implies(exp_err != -1, E.And(r["mtype"] == 0x81, r["rcode"] == exp_err, len(r["payload"]) == 0)), "ERROR with empty payload and the return code of the first failing check", {"got": [r["mtype"], r["rcode"]]})
    E.require(E.Implies(mt == 1, r["mtype"] != 0x80), "a fire-and-forget request never gets a RESPONSE")


SCENARIOS = {"H16": h16}

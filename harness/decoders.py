"""Shared by C03 and C20: input families for the decoders and the independent
classification of a buffer."""
from __future__ import annotations

from oracle import wire

from .c07 import mk


def template_sd(variant=0):
    """a valid SD payload built by the independent writer: entries of every type that
    reference option runs, every option kind, an unreferenced option"""
    v4 = wire.sd_option_bytes(wire.OPT_V4_ENDPOINT, wire.ip_option_data([192, 0, 2, 1], 17, 30509))
    cfgdata = [0] + [3] + list(b"a=b") + [1] + list(b"k") + [0]
    cfg = wire.sd_option_bytes(wire.OPT_CONFIG, cfgdata[1:], cfgdata[0])
    unk = wire.sd_option_bytes(0x77, [1, 2, 3])
    lb = wire.sd_option_bytes(wire.OPT_LOADBAL, wire.be(1, 2) + wire.be(2, 2))
    v6 = wire.sd_option_bytes(wire.OPT_V6_MULTICAST, wire.ip_option_data([0xFF, 2] + [0] * 13 + [1], 17, 30490))
    if variant == 0:
        options = [v4, cfg, unk]
        entries = [
            wire.sd_entry_bytes(wire.T_OFFER, 0, 1, 1, 1, 0x1234, 1, 1, 3, 7),
            wire.sd_entry_bytes(wire.T_SUBSCRIBE, 0, 0, 1, 0, 0x1234, 1, 1, 5, wire.eventgroup_word(1, 5)),
        ]
    elif variant == 1:
        options = [lb, v6]
        entries = [
            wire.sd_entry_bytes(wire.T_FIND, 0, 0, 0, 0, 0x1234, 0xFFFF, 0xFF, 3, 0xFFFFFFFF),
            wire.sd_entry_bytes(wire.T_SUBSCRIBE_ACK, 1, 0, 1, 0, 0x1234, 1, 1, 0, wire.eventgroup_word(0, 5)),
        ]
    else:
        options = [cfg]
        entries = [wire.sd_entry_bytes(wire.T_OFFER, 0, 0, 1, 0, 0x4321, 2, 1, 0xFFFFFF, 0)]
    return wire.sd_payload(0xC0, entries, options)


def template_someip(variant=0):
    return wire.sd_message(7, 0xC0, [], []) if variant == 9 else wire.someip_bytes(wire.SD_SERVICE, wire.SD_METHOD, 0, 7, 1, 2, 0, template_sd(variant))


def mutate(E, base, spec):
    """apply one mutation (described by the concrete dict `spec`) to the byte list"""
    b = list(base)
    kind = spec["m"]
    if kind == "window":
        p, w = spec["pos"], spec["w"]
        for k in range(w):
            if p + k < len(b):
                b[p + k] = E.int("w%d" % k, 0, 255)
    elif kind == "truncate":
        b = b[: spec["pos"]]
    elif kind == "insert":
        b = b[: spec["pos"]] + [E.int("ins", 0, 255)] + b[spec["pos"] :]
    elif kind == "dup":
        p, n = spec["pos"], spec["n"]
        b = b[: p + n] + b[p : p + n] + b[p + n :]
    return b


def mutation_specs(n, tier, stride_big=4):
    specs = []
    for p in range(n):
        specs.append({"m": "window", "pos": p, "w": 1})
        if tier == "thorough":
            specs.append({"m": "window", "pos": p, "w": 2})
            if p % 4 == 1:
                specs.append({"m": "window", "pos": p, "w": 3})
        if (tier == "thorough" and p % 2 == 0) or p % stride_big == 0:
            specs.append({"m": "window", "pos": p, "w": 4})
    for p in range(n + 1):
        specs.append({"m": "truncate", "pos": p})
        if tier == "thorough" or p % 2 == 0:
            specs.append({"m": "insert", "pos": p})
    for p in range(0, n, 8 if tier == "quick" else 3):
        for ln in (1, 4, 16):
            if p + ln <= n:
                specs.append({"m": "dup", "pos": p, "n": ln})
    return specs


def classify_sd(E, raw):
    """independent verdict on an SD payload: (verdict, sd, nonascii_any, nonascii_text).
    nonascii_any: some configuration option's data contains a byte >= 0x80 (only then
    may the repository's decoder raise UnicodeDecodeError); nonascii_text: the message is
    well-formed and an actual configuration string contains such a byte (then it must)."""
    nonascii = False
    try:
        sd = wire.parse_sd(raw)
        verdict = "ok"
    except wire.WireError:
        sd = None
        verdict = "reject"
    # lenient sequential split of the options region for the non-ASCII question
    b = list(raw)
    if len(b) >= 12:
        elen = wire.uint(b, 4, 4)
        if len(b) - 8 >= elen + 4:
            elen = int(elen)
            olen = wire.uint(b, 8 + elen, 4)
            if len(b) - 12 - elen >= olen:
                pos = 12 + elen
                end = pos + int(olen)
                while end - pos >= 3:
                    ln = wire.uint(b, pos, 2)
                    if end - pos - 3 < ln:
                        break
                    ln = int(ln)
                    if b[pos + 2] == wire.OPT_CONFIG:
                        if any(c >= 0x80 for c in b[pos + 4 : pos + 3 + ln]):
                            nonascii = True
                    pos += 3 + ln
    text = False
    if sd is not None:
        for o in sd["options"]:
            if o["type"] == wire.OPT_CONFIG:
                for k, v in wire.config_items(o["data"]):
                    if any(c >= 0x80 for c in list(k) + list(v or [])):
                        text = True
    return verdict, sd, nonascii, text


def run_decoder(M, fn, *args):
    """-> (outcome, value, rest, exception)"""
    hdr = M.header
    try:
        v, rest = fn(*args)
        return "ok", v, rest, None
    except hdr.ParseError as e:
        return "parse-error", None, None, e
    except UnicodeDecodeError as e:
        return "unicode-error", None, None, e
    except Exception as e:  # noqa: BLE001 - any other type is a finding
        return "other:" + type(e).__name__, None, None, e

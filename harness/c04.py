"""C04 - two SD stacks converge: offers are discovered, subscriptions established."""
from __future__ import annotations

from symx.vloop import Script, Ticks

from .common import TTL_FOREVER, loop_clean, new_loop, stub_uniform, tobytes

PROPERTY = "C04"
BUDGET_S = {"quick": 900, "thorough": 7200}
STUBS = [
    "network: SimNet - datagrams are the real bytes, delivered after 1 tick, multicast to every other peer / unicast by destination address; loss, duplication and reordering are applied to datagrams sent inside the disturbance window",
    "event loop: VirtualLoop shared by both stacks (symbolic ticks; stop/start/crash/restart injected at solver-chosen instants and iterations)",
    "random.uniform: fixed at the low end, middle or high end of the window (per configuration); symbolic jitter is the subject of C10/C12/C13",
    "crash: the transport is cut (nothing leaves or arrives) and the object is stopped and dropped; restart: a new protocol object with fresh session state",
]
ASSUMPTIONS = [
    "one compound disturbance (thorough: two, the second from a reduced alphabet) with symbolic start instant and a duration from a small alphabet; two peers",
    "finite-TTL configurations have TTL > cyclic-offer period and subscribe-refresh period; the infinite-TTL configuration is lossless (stop/start and crash/restart only)",
    "convergence is checked TTL + cyclic period (+ collection timeout + latency) after the last disturbance ended",
]
REACH = {"H04": ["h04.offered", "h04.subscribed", "h04.end"]}
MC = ("224.0.0.1", 30490)
ADDR = {"A": ("192.0.2.1", 30490), "B": ("192.0.2.2", 30490)}
CONFIGS = {
    "t1": dict(ttl=3, cyclic=1, refresh=1, rep=1, collect=0.005, jitter="lo"),
    "t2": dict(ttl=2, cyclic=1, refresh=1, rep=0, collect=0, jitter="hi"),
    "t3": dict(ttl=3, cyclic=2, refresh=2, rep=2, collect=0.005, jitter="mid"),
    "inf": dict(ttl=TTL_FOREVER, cyclic=1, refresh=None, rep=1, collect=0.005, jitter="lo"),
}
DURS_Q = [1, 50, 700, 1500]
DURS_T = [1, 5, 50, 700, 1500, 4000]
KINDS = ["A-stopstart", "A-stopstart-lossy", "B-stopstart", "A-stop", "B-stop", "A-crash", "B-crash", "A-crashstop", "B-crashstop", "loss", "dup", "reorder"]


def bounds(tier):
    return {"H04": "offerer A and watcher B (auto-subscribing to one eventgroup); disturbance kinds %s; start symbolic in 0..%d ms, duration from %s ms; timing configurations %s" % (KINDS, 2500 if tier == "quick" else 4000, DURS_Q if tier == "quick" else DURS_T, ["t1", "inf"] if tier == "quick" else sorted(CONFIGS))}


def cases(tier, seed):
    out = []
    cfgs = ["t1", "inf"] if tier == "quick" else ["t1", "t2", "t3", "inf"]
    for c in cfgs:
        for k in KINDS:
            if c == "inf" and k in ("loss", "dup", "reorder", "A-crashstop", "B-crashstop", "A-stopstart-lossy"):
                continue  # with infinite TTLs a silent death is, by design, never noticed
            if tier == "quick" and c == "inf" and k in ("A-stop", "B-stop"):
                continue
            out.append({"h": "H04", "cfg": c, "kinds": [k], "tmax": 2500 if tier == "quick" else 4000, "durs": DURS_Q if tier == "quick" else DURS_T, "_w": 10})
    if tier == "thorough":
        for k1, k2 in (("A-crash", "B-crash"), ("loss", "A-stopstart"), ("B-crash", "loss"), ("A-crash", "A-stopstart")):
            out.append({"h": "H04", "cfg": "t2", "kinds": [k1, k2], "tmax": 1500, "durs": [1, 700], "_w": 30})
    return out


class SimNet:
    def __init__(self, loop):
        self.loop = loop
        self.nodes = {}
        self.cut = set()
        self.window = None  # (kind, lo, hi)
        self.count = 0
        self.fifo = {}

    def transport(self, name):
        net = self

        class T:
            def sendto(s, data, addr=None):
                net.send(name, tobytes(data), addr)

            def get_extra_info(s, k, default=None):
                return ADDR[name] if k == "sockname" else default

            def close(s):
                pass

        return T()

    def send(self, name, data, addr):
        if name in self.cut:
            return
        self.count += 1
        now = self.loop.time()
        copies, extra = 1, 0
        if self.window is not None:
            kind, lo, hi = self.window
            if now >= lo and now < hi:
                if kind == "loss":
                    return
                if kind == "dup":
                    copies = 2
                if kind == "reorder":
                    extra = 30
        for n in list(self.nodes):
            if n == name:
                continue
            mcast = addr is None or addr == MC
            if mcast or addr == ADDR[n]:
                for _ in range(copies):
                    # FIFO per latency class: timers that are due at the same tick are
                    # interchangeable, each delivers the oldest datagram still in flight
                    self.fifo.setdefault(extra, []).append((n, data, ADDR[name], mcast))
                    self.loop.call_later(Ticks(1 + extra), self.deliver, extra)

    def deliver(self, klass):
        n, data, src, mcast = self.fifo[klass].pop(0)
        p = self.nodes.get(n)
        if p is not None and n not in self.cut:
            p.datagram_received(data, src, mcast)


def h04(E, M, case):
    loop = new_loop(E)
    sd, cfg, hdr = M.sd, M.config, M.header
    c = CONFIGS[case["cfg"]]
    pick = {"lo": lambda lo, hi, n: lo, "hi": lambda lo, hi, n: hi, "mid": lambda lo, hi, n: (lo + hi) // 2}[c["jitter"]]
    stub_uniform(E, M, fixed=pick)
    tm = sd.Timings(INITIAL_DELAY_MIN=0, INITIAL_DELAY_MAX=0.1, REPETITIONS_MAX=c["rep"], REPETITIONS_BASE_DELAY=0.1, CYCLIC_OFFER_DELAY=c["cyclic"], ANNOUNCE_TTL=c["ttl"], SUBSCRIBE_TTL=c["ttl"], SUBSCRIBE_REFRESH_INTERVAL=c["refresh"], SEND_COLLECTION_TIMEOUT=c["collect"], FIND_TTL=3)
    net = SimNet(loop)
    svc = cfg.Service(0x1234, 1, 1, 0, eventgroups=frozenset({5}))
    logs = {"A": [], "B": []}
    st = {}

    def mkA():
        log = []
        logs["A"] = log

        class SL(sd.ServerServiceListener):
            def client_subscribed(self, sub, src):
                log.append("subscribed")

            def client_unsubscribed(self, sub, src):
                log.append("unsubscribed")

        p = sd.ServiceDiscoveryProtocol(MC, timings=tm)
        p.transport = net.transport("A")
        net.nodes["A"] = p
        p.announcer.announce_service(sd.ServiceInstance(svc, SL(), p.announcer, tm))
        return p

    def mkB():
        log = []
        logs["B"] = log

        class CL(sd.ClientServiceListener):
            def service_offered(self, s, src):
                log.append("offered")

            def service_stopped(self, s, src):
                log.append("stopped")

        p = sd.ServiceDiscoveryProtocol(MC, timings=tm)
        p.transport = net.transport("B")
        net.nodes["B"] = p
        eg = cfg.Eventgroup(0x1234, 0xFFFF, 0xFF, 5, ("192.0.2.2", 4000), hdr.L4Protocols.UDP)
        p.discovery.watch_service(cfg.Service(0x1234), CL())
        p.discovery.find_subscribe_eventgroup(eg)
        return p

    st["A"], st["B"] = loop.call(mkA), loop.call(mkB)
    loop.call(st["A"].start)
    loop.call(st["B"].start)
    running = {"A": True, "B": True}
    sc = Script(loop, E)
    t = 0
    t_end = 0
    for di, kind in enumerate(case["kinds"]):
        ts = t + E.int("ts%d" % di, 0, case["tmax"])
        d = E.pick("dur%d" % di, case["durs"])
        te = ts + d
        who = kind[0] if kind[0] in "AB" and kind[1] == "-" else None
        if kind.endswith("stopstart-lossy"):
            # graceful stop whose farewell datagrams are lost (loss window of 6 ms at the stop)

            def lossy_stop(w=who, a=ts):
                net.window = ("loss", a, a + 6)
                st[w].stop()

            sc.at(ts, lossy_stop, "d%ds" % di, joinable=False)
            sc.at(te, lambda w=who: st[w].start(), "d%de" % di, joinable=False)
        elif kind.endswith("stopstart"):
            sc.at(ts, lambda w=who: st[w].stop(), "d%ds" % di, joinable=False)
            sc.at(te, lambda w=who: st[w].start(), "d%de" % di, joinable=False)
        elif kind.endswith("-stop"):
            sc.at(ts, lambda w=who: st[w].stop(), "d%ds" % di, joinable=False)
            running[who] = False
            te = ts
        elif kind.endswith("crashstop"):
            # dies silently and stays down: the peer can only learn it from the TTL

            def die(w=who):
                net.cut.add(w)
                st[w].stop()
                net.nodes.pop(w, None)

            sc.at(ts, die, "d%ds" % di, joinable=False)
            running[who] = False
            te = ts
        elif kind.endswith("crash"):

            def crash(w=who):
                net.cut.add(w)
                st[w].stop()
                net.nodes.pop(w, None)

            def restart(w=who):
                net.cut.discard(w)
                st[w] = mkA() if w == "A" else mkB()
                st[w].start()

            sc.at(ts, crash, "d%ds" % di, joinable=False)
            sc.at(te, restart, "d%de" % di, joinable=False)
        else:
            sc.at(ts, lambda k=kind, a=ts, b=te: setattr(net, "window", (k, a, b)), "d%ds" % di, joinable=False)
        t = te
        t_end = te
    sc.flush()
    ttl_ms = 0 if c["ttl"] == TTL_FOREVER else c["ttl"] * 1000
    horizon = t_end + ttl_ms + c["cyclic"] * 1000 + (c["refresh"] or 0) * 1000 + 50
    loop.settle(horizon)
    bl, al = logs["B"], logs["A"]
    nb, na = len(bl), len(al)
    # converged means stable: one more TTL and two more cyclic periods bring no events
    loop.settle(horizon + ttl_ms + 2 * c["cyclic"] * 1000)
    loop_clean(E, loop)
    E.reach("h04.end")
    E.require(len(bl) == nb and len(al) == na, "after convergence the listeners see no further events while nothing is disturbed", {"watcher_extra": bl[nb:][:4], "server_extra": al[na:][:4], "kinds": case["kinds"]})
    a_offers = running["A"]
    b_runs = running["B"]
    E.observe([bl[-3:], al[-3:], net.count])
    if a_offers:
        E.reach("h04.offered")
    b_dead = any(k == "B-crashstop" for k in case["kinds"])
    E.require(b_dead or (bool(bl) and bl[-1] == "offered") == a_offers, "the watcher's listener reports the service as offered exactly when the offering stack offers it", {"watcher_log_tail": bl[-4:], "offering": a_offers, "kinds": case["kinds"]})
    want_sub = a_offers and b_runs
    if want_sub:
        E.reach("h04.subscribed")
    E.require((bool(al) and al[-1] == "subscribed") == want_sub, "the offering stack's listener reports the watcher as subscribed exactly when the service is offered and the watcher runs", {"server_log_tail": al[-4:], "expected": want_sub, "kinds": case["kinds"]})


SCENARIOS = {"H04": h04}

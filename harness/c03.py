"""C03 - malformed or foreign input is rejected cleanly and changes nothing."""
from __future__ import annotations

from oracle import wire

from .c07 import mk
from .common import MC, P, Q, RecTransport, loop_clean, new_loop, stub_uniform
from .decoders import classify_sd, mutate, mutation_specs, run_decoder, template_sd, template_someip

PROPERTY = "C03"
BUDGET_S = {"quick": 900, "thorough": 7200}
STUBS = ["struct/bytes/bytearray/enum lowering", "option registry: equality-scan dict", "SymIP for addresses from symbolic bytes", "VirtualLoop (H03b)"]
ASSUMPTIONS = [
    "fully symbolic buffers up to the stated sizes; larger inputs as templates (built by the independent writer) with a window of 1..4 fully symbolic bytes at every position, truncation at every position, one inserted symbolic byte, one duplicated region",
    "decoding terminates: every path of every decoder finished within the engine's iteration/solver bounds (a non-terminating path would end the check inconclusive, never as success)",
    "listener / handler callbacks of H03b raise nothing but the documented exceptions",
]
REACH = {
    "H03a": ["h03a.ok", "h03a.parse-error"],
    "H03t": ["h03t.ok", "h03t.parse-error", "h03t.unicode-error"],
    "H03b": ["h03b.rejected", "h03b.accepted"],
}


def bounds(tier):
    n = 21 if tier == "thorough" else 18
    return {
        "H03a": "fully symbolic buffers: SOMEIPSDHeader.parse 0..%d bytes; SOMEIPSDEntry.parse 0..17 bytes with symbolic option count; SOMEIPSDOption.parse 0..%d bytes and, per registered type, exact-size and off-by-one payloads; SOMEIPHeader.parse: see C01/H01b" % (n, 10 if tier == "thorough" else 8),
        "H03t": "3 SD templates (all entry types, all option kinds) and the SOME/IP frame: windows of %s symbolic bytes at every position, truncation at every position, inserted symbolic byte, duplicated regions" % ("1, 2 (every position), 3 (every 4th) and 4 (every 2nd)" if tier == "thorough" else "1 (every position) and 4 (every 4th)"),
        "H03b": "live ServiceDiscoveryProtocol (watch-all listener, announced instance with server listener, one accepted offer and one subscription) and SimpleService with three handlers: same template family through datagram_received on both channels; twin endpoint receives the datagram with the rejected messages removed",
    }


def cases(tier, seed):
    out = []
    nmax = 21 if tier == "thorough" else 18
    for n in range(0, nmax + 1):
        out.append({"h": "H03a", "dec": "sd", "n": n, "_w": 1 + (n > 12) * 10 ** max(0, (n - 12) // 4)})
    for n in range(0, 18):
        out.append({"h": "H03a", "dec": "entry", "n": n})
    for n in range(0, (11 if tier == "thorough" else 9)):
        out.append({"h": "H03a", "dec": "option", "n": n, "_w": 2 + 4 ** max(0, n - 6)})
    for ty, size in ((1, 7 if tier == "thorough" else 6), (2, 5), (2, 6), (4, 9), (4, 10), (6, 21), (0x14, 9), (0x16, 21), (0x24, 8), (0x26, 21)):
        out.append({"h": "H03a", "dec": "option-typed", "type": ty, "size": size, "_w": 2})
    for variant in (0, 1, 2):
        base = template_sd(variant)
        for spec in mutation_specs(len(base), tier):
            out.append({"h": "H03t", "layer": "sd", "variant": variant, **spec})
    base = template_someip(0)
    for spec in mutation_specs(28, tier):  # the SOME/IP header and the start of the SD payload
        out.append({"h": "H03t", "layer": "someip", "variant": 0, **spec})
    # live endpoints
    for variant, dgram in ((0, "single"), (2, "single"), (1, "pair")):
        n = len(template_someip(variant))
        for spec in mutation_specs(n, tier, stride_big=8):
            if tier == "quick" and spec["m"] in ("insert", "dup") and spec["pos"] % 4:
                continue
            # the deep option/entry decoders are covered by H03a/H03t; here wide windows
            # only over the SOME/IP header and the SD header (message filtering, lengths)
            if spec["m"] == "window" and spec["w"] > 2 and spec["pos"] >= 24:
                continue
            if spec["m"] == "window" and spec["w"] == 2 and spec["pos"] >= 28:
                continue
            if tier == "quick" and dgram == "pair" and spec["m"] != "window":
                continue
            out.append({"h": "H03b", "dgram": dgram, "variant": variant, "_w": 3, **spec})
    # the message under mutation is the *second* one of the datagram: its header (incl. the
    # length field) and the start of its SD payload
    off = len(FOREIGN)
    for spec in mutation_specs(28, tier, stride_big=4):
        if spec["m"] == "dup":
            continue
        if spec["m"] == "window" and spec["w"] > 2 and spec["pos"] >= 24:
            continue
        spec = dict(spec)
        spec["pos"] += off
        out.append({"h": "H03b", "dgram": "pair2", "variant": 2, "_w": 3, **spec})
    for variant in (0, 1, 2):
        for spec in mutation_specs(20, tier):
            out.append({"h": "H03s", "variant": variant, **spec})
    return out


def _check_sd_outcome(E, M, raw, tag):
    hdr = M.header
    buf = mk(E, raw)
    outcome, v, rest, exc = run_decoder(M, hdr.SOMEIPSDHeader.parse, buf)
    E.observe([outcome])
    E.reach("%s.%s" % (tag, outcome if not outcome.startswith("other") else "other"))
    E.require(not outcome.startswith("other"), "a decoder raises only the library's parse error or (configuration text) UnicodeDecodeError", {"outcome": outcome, "exc": repr(exc)})
    verdict, sd, nonascii, nonascii_text = classify_sd(E, raw)
    E.require(E.Implies(outcome == "unicode-error", nonascii), "UnicodeDecodeError solely for non-ASCII bytes inside a configuration option's text")
    E.require(E.Iff(outcome == "ok", E.And(verdict == "ok", E.Not(nonascii_text))), "the SD decoder accepts exactly the inputs the independent reader accepts", {"outcome": outcome, "independent": verdict, "nonascii_text": nonascii_text, "exc": repr(exc)})
    if outcome == "ok" and sd is not None:
        consumed = len(raw) - len(sd["rest"])
        E.require(len(rest) == len(raw) - consumed and E.eq(rest, mk(E, raw[consumed:])), "the unconsumed suffix is returned")
        E.require(len(v.entries) == len(sd["entries"]) and len(v.options) == len(sd["options"]), "entry and option counts equal the independent reading")
        for e, w in zip(v.entries, sd["entries"]):
            E.require(E.And(e.sd_type == w["type"], e.service_id == w["service"], e.instance_id == w["instance"], e.major_version == w["major"], e.ttl == w["ttl"], e.minver_or_counter == w["last32"], e.option_index_1 == w["idx1"], e.option_index_2 == w["idx2"], e.num_options_1 == w["n1"], e.num_options_2 == w["n2"]), "decoded entry fields equal the independent reading")
    return outcome, v, rest


def h03a(E, M, case):
    hdr = M.header
    n = case["n"] if "n" in case else None
    if case["dec"] == "sd":
        raw = [E.int("b%d" % i, 0, 255) for i in range(n)]
        _check_sd_outcome(E, M, raw, "h03a")
        return
    if case["dec"] == "entry":
        raw = [E.int("b%d" % i, 0, 255) for i in range(n)]
        nopt = E.int("num_options", 0, 300)
        outcome, v, rest, exc = run_decoder(M, hdr.SOMEIPSDEntry.parse, mk(E, raw), nopt)
        E.observe([outcome])
        E.reach("h03a." + (outcome if not outcome.startswith("other") else "other"))
        E.require(outcome in ("ok", "parse-error"), "the entry decoder raises only the library's parse error", {"outcome": outcome, "exc": repr(exc)})
        if n < 16:
            E.require(outcome == "parse-error", "a short entry is rejected")
            return
        w = wire.parse_entry(raw, 0)
        good = E.And(E.Or(*[w["type"] == t for t in wire.ENTRY_TYPES]), w["idx1"] + w["n1"] <= nopt, w["idx2"] + w["n2"] <= nopt, E.Or(E.And(w["type"] != wire.T_SUBSCRIBE, w["type"] != wire.T_SUBSCRIBE_ACK), w["reserved12"] == 0))
        E.require(E.Iff(outcome == "ok", good), "the entry decoder accepts exactly: known type, both option runs inside the option array, reserved bits of eventgroup entries zero", {"outcome": outcome})
        if outcome == "ok":
            E.require(E.eq(rest, mk(E, raw[16:])), "the unconsumed suffix is returned")
            E.require(E.And(v.sd_type == w["type"], v.service_id == w["service"], v.instance_id == w["instance"], v.major_version == w["major"], v.ttl == w["ttl"], v.minver_or_counter == w["last32"], v.option_index_1 == w["idx1"], v.option_index_2 == w["idx2"], v.num_options_1 == w["n1"], v.num_options_2 == w["n2"]), "decoded entry fields equal the independent reading")
        return
    # options
    if case["dec"] == "option":
        raw = [E.int("b%d" % i, 0, 255) for i in range(n)]
    else:
        size = case["size"]
        raw = wire.be(size, 2) + [case["type"]] + [E.int("b%d" % i, 0, 255) for i in range(size)] + [0x55]
    outcome, v, rest, exc = run_decoder(M, hdr.SOMEIPSDOption.parse, mk(E, raw))
    E.observe([outcome, type(v).__name__])
    E.reach("h03a." + (outcome if not outcome.startswith("other") else "other"))
    E.require(not outcome.startswith("other"), "the option decoder raises only the library's parse error or UnicodeDecodeError", {"outcome": outcome, "exc": repr(exc)})
    if len(raw) < 3:
        E.require(outcome == "parse-error", "a short option is rejected")
        return
    ln = wire.uint(raw, 0, 2)
    fits = ln <= len(raw) - 3
    if not fits:
        E.require(outcome == "parse-error", "an option longer than the buffer is rejected")
        return
    ln = int(ln)
    o = {"type": raw[2], "data": raw[3 : 3 + ln]}
    try:
        wire.check_option(o)
        good = True
    except wire.WireError:
        good = False
    is_cfg = bool(o["type"] == wire.OPT_CONFIG)
    nonascii = is_cfg and any(c >= 0x80 for c in o["data"][1:])
    text = False
    if is_cfg and good:
        text = any(c >= 0x80 for k, v in wire.config_items(o["data"]) for c in list(k) + list(v or []))
    E.require(E.Implies(outcome == "unicode-error", nonascii), "UnicodeDecodeError solely for non-ASCII configuration text")
    E.require(E.Iff(outcome == "ok", good and not text), "the option decoder accepts exactly what the independent reader accepts", {"outcome": outcome, "independent": good, "exc": repr(exc)})
    if outcome == "ok":
        E.require(E.eq(rest, mk(E, raw[3 + ln :])), "the unconsumed suffix is returned")


def h03t(E, M, case):
    hdr = M.header
    if case["layer"] == "sd":
        raw = mutate(E, template_sd(case["variant"]), case)
        _check_sd_outcome(E, M, raw, "h03t")
        return
    raw = mutate(E, template_someip(case["variant"]), case)
    outcome, v, rest, exc = run_decoder(M, hdr.SOMEIPHeader.parse, mk(E, raw))
    E.observe([outcome])
    E.reach("h03t." + (outcome if not outcome.startswith("other") else "other"))
    E.require(outcome in ("ok", "parse-error"), "the SOME/IP decoder raises only the library's parse error", {"outcome": outcome, "exc": repr(exc)})
    try:
        f, wrest = wire.parse_someip(raw)
        good = True
    except wire.WireError:
        good = False
    E.require((outcome == "ok") == good, "the SOME/IP decoder accepts exactly what the independent reader accepts", {"outcome": outcome, "independent": good})
    if outcome == "ok":
        E.require(E.eq(rest, mk(E, wrest)) and E.eq(v.payload, mk(E, f["payload"])), "payload and unconsumed suffix equal the independent reading")


SCENARIOS = {"H03a": h03a, "H03t": h03t}


# ---------------------------------------------------------------------------------- H03b
def _endpoint(E, M, loop):
    """a started discovery endpoint with listeners, one announced instance, one learnt
    offer and one accepted subscription (both from Q)"""
    sd, cfg = M.sd, M.config
    tm = sd.Timings(INITIAL_DELAY_MIN=0, INITIAL_DELAY_MAX=0, REPETITIONS_MAX=0, CYCLIC_OFFER_DELAY=0, SEND_COLLECTION_TIMEOUT=0, ANNOUNCE_TTL=0xFFFFFF)
    prot = sd.ServiceDiscoveryProtocol(MC, timings=tm)
    tr = RecTransport(loop)
    prot.transport = tr
    log = []

    class CL(sd.ClientServiceListener):
        def service_offered(self, service, source):
            log.append(("offered", service.service_id, service.instance_id, source))

        def service_stopped(self, service, source):
            log.append(("stopped", service.service_id, service.instance_id, source))

    class SL(sd.ServerServiceListener):
        def client_subscribed(self, sub, source):
            log.append(("subscribed", sub.id, sub.counter, source))

        def client_unsubscribed(self, sub, source):
            log.append(("unsubscribed", sub.id, sub.counter, source))

    prot.discovery.watch_all_services(CL())
    inst = sd.ServiceInstance(cfg.Service(0x1234, 1, 1, 7, eventgroups=frozenset({5})), SL(), prot.announcer, tm)
    loop.call(prot.announcer.announce_service, inst)
    loop.call(prot.start)
    loop.settle()
    ep = wire.sd_option_bytes(wire.OPT_V4_ENDPOINT, wire.ip_option_data([192, 0, 2, 2], 17, 4000))
    offer = wire.sd_entry_bytes(wire.T_OFFER, 0, 0, 0, 0, 0x7777, 1, 1, 0xFFFFFF, 0)
    sub = wire.sd_entry_bytes(wire.T_SUBSCRIBE, 0, 0, 1, 0, 0x1234, 1, 1, 0xFFFFFF, wire.eventgroup_word(0, 5))
    loop.deliver(1, lambda: prot.datagram_received(bytes(wire.sd_message(1, 0xC0, [offer, sub], [ep])), Q, False), may_defer=False)
    loop.settle()
    return prot, inst, tr, log


def _state(prot, inst):
    found = sorted((repr(a), s.service_id, s.instance_id) for a, d in prot.discovery.found_services.store.items() for s in d)
    subs = sorted((repr(a), s.id, s.counter) for a, d in inst.subscriptions.store.items() for s in d)
    return found, subs


def _expected_datagram(E, raw):
    """the datagram with every message removed that is not a decodable SD notification;
    messages whose unicast flag is clear keep their header and flags but lose their entries"""
    out = []
    kept = 0
    b = list(raw)
    while b:
        try:
            f, b = wire.parse_someip(b)
        except wire.WireError:
            break
        if not (f["service"] == wire.SD_SERVICE and f["method"] == wire.SD_METHOD and f["iface"] == 1 and f["mtype"] == wire.MT_NOTIFICATION and f["rcode"] == 0):
            continue
        verdict, sd, nonascii, text = classify_sd(E, f["payload"])
        if verdict != "ok" or text:
            continue
        kept += 1
        if sd["unicast"] == 0:
            out += wire.someip_bytes(f["service"], f["method"], f["client"], f["session"], 1, 2, 0, wire.sd_payload(sd["flags"], [], []))
        else:
            out += wire.someip_bytes(f["service"], f["method"], f["client"], f["session"], 1, 2, 0, f["payload"])
    return out, kept


# a well-formed request for some other service (not an SD notification)
FOREIGN = wire.someip_bytes(0x4242, 0x0001, 1, 2, 1, 0, 0, [9, 9, 9, 9])


def _datagram(case):
    if case["dgram"] == "single":
        return template_someip(case["variant"])
    if case["dgram"] == "pair":
        # a valid notification preceded by the message under mutation
        ok = wire.sd_message(9, 0xC0, [wire.sd_entry_bytes(wire.T_OFFER, 0, 0, 0, 0, 0x5555, 1, 1, 3, 0)], [])
        return template_someip(case["variant"]) + ok
    if case["dgram"] == "pair2":
        return FOREIGN + template_someip(case["variant"])
    raise KeyError(case["dgram"])


def h03b(E, M, case):
    loop = new_loop(E)
    stub_uniform(E, M)
    a, ainst, atr, alog = _endpoint(E, M, loop)
    b, binst, btr, blog = _endpoint(E, M, loop)
    raw = mutate(E, _datagram(case), case)
    expect, kept = _expected_datagram(E, raw)
    mc = E.flag("multicast")
    sender = P if case.get("sender", "P") == "P" else Q
    n_a, n_b = len(atr.sent), len(btr.sent)
    la, lb = len(alog), len(blog)
    escaped = []

    def feed(prot, data):
        try:
            prot.datagram_received(mk(E, data), sender, mc)
        except Exception as exc:  # noqa: BLE001 - the receive path must not raise
            escaped.append(repr(exc))

    loop.deliver(5, lambda: feed(a, raw), may_defer=False)
    loop.settle()
    E.require(not escaped, "the receive path returns without raising whatever the bytes are", {"escaped": escaped})
    loop.deliver(5, lambda: feed(b, expect), may_defer=False)
    loop.settle()
    loop_clean(E, loop)
    E.reach("h03b.accepted" if kept else "h03b.rejected")
    E.observe([kept, alog[la:], len(atr.sent) - n_a])
    E.require(alog[la:] == blog[lb:], "a message that is not a decodable SD notification causes no listener callback (twin run without it sees the same callbacks)", {"with": [list(map(str, x)) for x in alog[la:]], "without": [list(map(str, x)) for x in blog[lb:]]})
    sa = [(x[2], mk(E, list(x[1]))) for x in atr.sent[n_a:]]
    sb = [(x[2], mk(E, list(x[1]))) for x in btr.sent[n_b:]]
    E.require(len(sa) == len(sb) and all(x[0] == y[0] for x, y in zip(sa, sb)), "a rejected message causes no transmission", {"with": len(sa), "without": len(sb)})
    E.require(E.And(*[E.eq(x[1], y[1]) for x, y in zip(sa, sb)]), "transmissions equal those of the twin run")
    E.require(_state(a, ainst) == _state(b, binst), "discovery and subscription state equal those of the twin run", {"with": _state(a, ainst), "without": _state(b, binst)})
    ia, ib = a.session_storage.incoming, b.session_storage.incoming
    E.require(sorted(map(repr, ia)) == sorted(map(repr, ib)), "session memory has the same keys as in the twin run", {"with": sorted(map(repr, ia)), "without": sorted(map(repr, ib))})
    for k in ia:
        if k in ib:
            E.require(E.And(E.eq(ia[k][0], ib[k][0]), E.eq(ia[k][1], ib[k][1])), "session memory equals the twin run's")
    E.require(dict(a.session_storage.outgoing) == dict(b.session_storage.outgoing), "outgoing session counters equal the twin run's")


def h03s(E, M, case):
    """service endpoint: nothing escapes; an undecodable first message is not answered"""

    class Svc(M.service.SimpleService):
        service_id = 0x4321
        version_major = 2
        version_minor = 0

    svc = Svc(7)
    tr = RecTransport()
    svc.transport = tr
    calls = []
    svc.register_method(0x10, lambda m, a: (calls.append(0x10), b"ok")[1])
    svc.register_method(0x11, lambda m, a: calls.append(0x11))

    def bad(m, a):
        calls.append(0x12)
        raise M.service.MalformedMessageError("bad")

    svc.register_method(0x12, bad)
    if E.symbolic:
        from symx.symbytes import ScanDict

        svc.methods = ScanDict(svc.methods)
    base = wire.someip_bytes(0x4321, [0x10, 0x11, 0x12][case["variant"]], 3, 4, 2, 0, 0, [1, 2, 3, 4])
    raw = mutate(E, base, case)
    escaped = []
    try:
        svc.datagram_received(mk(E, raw), P, E.flag("multicast"))
    except Exception as exc:  # noqa: BLE001
        escaped.append(repr(exc))
    E.observe([len(tr.sent), list(calls)])
    E.require(not escaped, "the service endpoint's receive path returns without raising whatever the bytes are", {"escaped": escaped})
    try:
        wire.parse_someip(raw)
        first_ok = True
    except wire.WireError:
        first_ok = False
    E.reach("h03s.decodable" if first_ok else "h03s.undecodable")
    if not first_ok:
        E.require(not tr.sent and not calls, "an undecodable message is neither answered nor dispatched")


SCENARIOS.update({"H03b": h03b, "H03s": h03s})
REACH["H03s"] = ["h03s.decodable", "h03s.undecodable"]

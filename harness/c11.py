"""C11 - every unicast Subscribe gets exactly one correct Ack or Nack."""
from __future__ import annotations

import itertools

from oracle import wire

from .c07 import mk
from .common import MC, P, RecTransport, loop_clean, new_loop, sd_entries_sent, stub_uniform

PROPERTY = "C11"
BUDGET_S = {"quick": 600, "thorough": 2400}
STUBS = ["VirtualLoop", "struct/bytes/enum lowering (the TTL bytes of each Subscribe are symbolic)", "Service.eventgroups: equality-scan frozenset subclass"]
ASSUMPTIONS = [
    "one received message with 1..2 (thorough 3) Subscribe entries; ids from {declared value, other value, wildcard constant}; TTL symbolic 0..0xFFFFFF; listener decision symbolic; channel symbolic",
    "server configurations: one running instance / wildcard instance / two instances / stopped instance / never started announcer / no instance; at most one instance matches an entry",
    "StopSubscribe for an eventgroup nobody declares is not constrained by the statement", "variants: the matching instance is withdrawn, or the subscriber's next message reveals a reboot, 0..6 ms after the message (the answer already decided must still leave exactly once)",
]
REACH = {"H11": ["h11.ack", "h11.nack", "h11.stopsubscribe", "h11.multicast", "h11.stopped-meanwhile"]}
W_I, W_M = 0xFFFF, 0xFF
CONFIGS = {
    "one": [dict(sid=0x2000, iid=1, maj=1, egs=(5,), state="running")],
    "wild": [dict(sid=0x2000, iid=W_I, maj=W_M, egs=(5, 6), state="running")],
    "two": [dict(sid=0x2000, iid=1, maj=1, egs=(5,), state="running"), dict(sid=0x2000, iid=2, maj=1, egs=(6,), state="running")],
    "three": [dict(sid=0x2000, iid=1, maj=1, egs=(5,), state="running"), dict(sid=0x2000, iid=2, maj=1, egs=(5,), state="stopped"), dict(sid=0x2001, iid=1, maj=1, egs=(5,), state="running")],
    "stopped": [dict(sid=0x2000, iid=1, maj=1, egs=(5,), state="stopped")],
    "notstarted": [dict(sid=0x2000, iid=1, maj=1, egs=(5,), state="notstarted")],
    "none": [],
}


def bounds(tier):
    return {"H11": "configurations %s; single-entry messages over service {0x2000,0x2001} x instance {1,2,0xFFFF} x major {1,0xFF} x eventgroup {5,6,7} and counter {0,1,15} x endpoint options {0,1,2} x extra option; %s-entry messages over 6 representative entries; prior state none / same subscription live; collection timeout {0, 5 ms}" % (sorted(CONFIGS), "2 and 3" if tier == "thorough" else "2")}


def _ent(sid=0x2000, iid=1, maj=1, eg=5, cnt=0, nopts=1, extra=0):
    return dict(sid=sid, iid=iid, maj=maj, eg=eg, cnt=cnt, nopts=nopts, extra=extra)


REPR = [_ent(), _ent(eg=6), _ent(iid=2, eg=6), _ent(sid=0x2001), _ent(cnt=1), _ent(iid=W_I)]


def cases(tier, seed):
    out = []
    for cfg in CONFIGS:
        for sid, iid, maj, eg in itertools.product((0x2000, 0x2001), (1, 2, W_I), (1, W_M), (5, 6, 7)):
            out.append({"h": "H11", "cfg": cfg, "ents": [_ent(sid, iid, maj, eg)], "prior": 0, "collect": 0})
    for cfg in ("one", "wild", "two"):
        for cnt, nopts, extra in itertools.product((0, 1, 15), (0, 1, 2), (0, 1)):
            out.append({"h": "H11", "cfg": cfg, "ents": [_ent(cnt=cnt, nopts=nopts, extra=extra)], "prior": 0, "collect": 5})
        for prior in (1,):
            for e in (_ent(), _ent(cnt=1), _ent(eg=6)):
                out.append({"h": "H11", "cfg": cfg, "ents": [e], "prior": prior, "collect": 0})
    for cfg in ("one", "two"):
        for e in (_ent(), _ent(eg=6), _ent(cnt=1)):
            out.append({"h": "H11", "cfg": cfg, "ents": [e], "prior": 0, "collect": 5, "stop_after": True})
            out.append({"h": "H11", "cfg": cfg, "ents": [e], "prior": 0, "collect": 5, "reboot_after": True})
    for cfg in ("one", "two", "three"):
        for a, b in itertools.product(REPR, repeat=2):
            out.append({"h": "H11", "cfg": cfg, "ents": [a, b], "prior": 0, "collect": 5 if cfg == "two" else 0, "_w": 2})
    if tier == "thorough":
        for cfg in ("two", "three"):
            for a, b, c in itertools.product(REPR, repeat=3):
                out.append({"h": "H11", "cfg": cfg, "ents": [a, b, c], "prior": 0, "collect": 5 if cfg == "two" else 0, "_w": 3})
    return out


def _message(E, ents, ttls, session):
    options, entries = [], []
    for e, ttl in zip(ents, ttls):
        i1 = len(options)
        for k in range(e["nopts"]):
            options.append(wire.sd_option_bytes(wire.OPT_V4_ENDPOINT, wire.ip_option_data([192, 0, 2, 60 + k], wire.PROTO_UDP, 4000 + k)))
        i2 = len(options)
        if e["extra"]:
            options.append(wire.sd_option_bytes(wire.OPT_CONFIG, [1] + list(b"x") + [0]))
        entries.append(wire.sd_entry_bytes(wire.T_SUBSCRIBE, i1, i2 if e["extra"] else 0, e["nopts"], 1 if e["extra"] else 0, e["sid"], e["iid"], e["maj"], ttl, wire.eventgroup_word(e["cnt"], e["eg"])))
    return mk(E, wire.sd_message(session, 0xC0, entries, options))


def h11(E, M, case):
    loop = new_loop(E)
    sd, cfg = M.sd, M.config
    stub_uniform(E, M)
    C = case["collect"]
    tm = sd.Timings(INITIAL_DELAY_MIN=0, INITIAL_DELAY_MAX=0, REPETITIONS_MAX=0, CYCLIC_OFFER_DELAY=0, SEND_COLLECTION_TIMEOUT=C / 1000 if C else 0, ANNOUNCE_TTL=0xFFFFFF)
    prot = sd.ServiceDiscoveryProtocol(MC, timings=tm)
    tr = RecTransport(loop)
    prot.transport = tr
    ann = prot.announcer
    if E.symbolic:
        from symx.symbytes import ScanSet as fset
    else:
        fset = frozenset
    asked = []

    def listener(idx):
        class SL(sd.ServerServiceListener):
            def client_subscribed(self, sub, src):
                acc = E.flag("accept%d" % len(asked))
                asked.append((idx, sub.id, sub.counter, acc))
                if not acc:
                    raise sd.NakSubscription

            def client_unsubscribed(self, sub, src):
                asked.append((idx, sub.id, sub.counter, "unsub"))

        return SL()

    conf = CONFIGS[case["cfg"]]
    insts = []
    for idx, c in enumerate(conf):
        inst = sd.ServiceInstance(cfg.Service(c["sid"], c["iid"], c["maj"], 0, eventgroups=fset(c["egs"])), listener(idx), ann, tm)
        insts.append(inst)
        loop.call(ann.announce_service, inst)
    if not any(c["state"] == "notstarted" for c in conf):
        loop.call(ann.start)
    loop.settle(10)
    for inst, c in zip(insts, conf):
        if c["state"] == "stopped":
            loop.call(ann.stop_announce_service, inst)
    loop.settle()
    ents = case["ents"]
    session = 1
    if case["prior"]:
        n_before = len(asked)
        loop.deliver(11, lambda: prot.datagram_received(_message(E, ents[:1], [0xFFFFFF], 1), P, False), may_defer=False)
        loop.settle(19)
        session = 2
        E.assume(all(a[3] is True for a in asked[n_before:]))
    n0 = len(tr.sent)
    a0 = len(asked)
    store0 = [sorted((repr(a), s.id, s.counter) for a, d in i.subscriptions.store.items() for s in d) for i in insts]
    ttls = [E.int("ttl%d" % i, 0, 0xFFFFFF) for i in range(len(ents))]
    multicast = E.flag("multicast")
    data = _message(E, ents, ttls, session)
    loop.deliver(20, lambda: prot.datagram_received(data, P, multicast), may_defer=False)
    if case.get("reboot_after"):
        # the subscriber's next message reveals a reboot while the answer may still be queued
        tr2 = 20 + E.int("t_reboot", 0, 6)
        loop.deliver(tr2, lambda: prot.datagram_received(bytes(wire.sd_message(1, 0xC0, [], [])), P, False), name="reboot")
    if case.get("stop_after"):
        # the service is withdrawn while the answer may still sit in the send collector
        ts = 20 + E.int("t_stop", 0, 6)
        loop.deliver(ts, lambda: ann.stop_announce_service(insts[0]), name="stop")
    loop.settle(40)
    loop_clean(E, loop)
    acks = [x for x in sd_entries_sent(tr.sent[n0:]) if x["e"]["type"] == wire.T_SUBSCRIBE_ACK]
    other = [x for x in sd_entries_sent(tr.sent[n0:]) if x["e"]["type"] != wire.T_SUBSCRIBE_ACK and not (x["e"]["type"] == wire.T_OFFER and x["to"] == MC)]
    if case.get("stop_after"):
        E.reach("h11.stopped-meanwhile")
    E.observe([[x["e"]["service"], x["e"]["instance"], x["e"]["eventgroup"], x["e"]["counter"], x["e"]["ttl"]] for x in acks])
    E.require(not other, "a Subscribe is answered with SubscribeAck entries only")
    if multicast:
        E.reach("h11.multicast")
        E.require(not acks, "Subscribe entries received over multicast are not answered")
        store1 = [sorted((repr(a), s.id, s.counter) for a, d in i.subscriptions.store.items() for s in d) for i in insts]
        E.require(store0 == store1 and len(asked) == a0, "Subscribe entries received over multicast change no state")
        return
    E.require(all(x["to"] == P for x in acks), "acknowledgements go to the sender's address only")
    remaining = list(acks)
    ask_i = a0
    live = set((0,) + (e["sid"], e["iid"], e["maj"], e["eg"], e["cnt"], e["nopts"]) for e in ents[:1]) if case["prior"] else set()
    for i, (e, ttl) in enumerate(zip(ents, ttls)):
        matching = [j for j, c in enumerate(conf) if c["state"] == "running" and c["sid"] == e["sid"] and c["iid"] in (W_I, e["iid"]) and c["maj"] in (W_M, e["maj"]) and e["eg"] in c["egs"]]
        assert len(matching) <= 1
        mine = [x for x in remaining if (x["e"]["service"], x["e"]["instance"], x["e"]["major"], x["e"]["eventgroup"], x["e"]["counter"]) == (e["sid"], e["iid"], e["maj"], e["eg"], e["cnt"])]
        ident = (e["sid"], e["iid"], e["maj"], e["eg"], e["cnt"], e["nopts"])
        if ttl == 0:
            E.reach("h11.stopsubscribe")
            if matching:
                # no answer expected: anything left over is reported by the final check
                live.discard((matching[0],) + ident)
            continue
        E.require(len(mine) >= 1, "each Subscribe with a non-zero TTL is answered by a SubscribeAck echoing service, instance, major version, eventgroup and counter", {"entry": e, "acks": [[x["e"]["service"], x["e"]["instance"], x["e"]["eventgroup"], x["e"]["counter"]] for x in acks]})
        if not mine:
            continue
        ack = mine[0]
        remaining.remove(ack)
        if matching:
            key = (matching[0],) + ident
            if key in live:
                accepted = True  # refresh of a live subscription: the listener is not asked again
            else:
                # the listener of the matching instance is asked exactly once for it
                mine_asks = [a for a in asked[ask_i:] if a[0] == matching[0] and a[1] == e["eg"] and a[2] == e["cnt"] and a[3] != "unsub"]
                E.require(len(mine_asks) >= 1, "the matching running instance's listener is asked")
                accepted = bool(mine_asks) and mine_asks[0][3] is True
                if mine_asks:
                    asked.remove(mine_asks[0])
            if accepted:
                live.add(key)
                E.reach("h11.ack")
                E.require(ack["e"]["ttl"] == ttl, "an accepted Subscribe is acknowledged with the requested TTL", {"entry": e})
            else:
                E.reach("h11.nack")
                E.require(ack["e"]["ttl"] == 0, "a rejected Subscribe is acknowledged negatively (TTL 0)", {"entry": e})
        else:
            E.reach("h11.nack")
            E.require(ack["e"]["ttl"] == 0, "a Subscribe no running instance matches is acknowledged negatively (TTL 0)", {"entry": e})
    # exactly one: nothing left over except answers to StopSubscribes of undeclared eventgroups
    for x in remaining:
        unconstrained = any(t is not None and (e["sid"], e["iid"], e["maj"], e["eg"], e["cnt"]) == (x["e"]["service"], x["e"]["instance"], x["e"]["major"], x["e"]["eventgroup"], x["e"]["counter"]) and not [j for j, c in enumerate(conf) if c["state"] == "running" and c["sid"] == e["sid"] and c["iid"] in (W_I, e["iid"]) and c["maj"] in (W_M, e["maj"]) and e["eg"] in c["egs"]] and bool(t == 0) for e, t in zip(ents, ttls))
        E.require(unconstrained, "exactly one SubscribeAck per Subscribe entry (no extra answers; StopSubscribe for a known eventgroup is not answered)", {"extra": [x["e"]["service"], x["e"]["instance"], x["e"]["eventgroup"], x["e"]["counter"], x["e"]["ttl"]]})


SCENARIOS = {"H11": h11}

"""C06 - server subscription records are truthful; acknowledged subscriptions are held."""
from __future__ import annotations

import itertools

from oracle import wire
from symx.vloop import Script

from .c07 import mk
from .common import MC, P, Q, TTL_FOREVER, RecTransport, loop_clean, new_loop, sd_entries_sent, stub_uniform

PROPERTY = "C06"
BUDGET_S = {"quick": 900, "thorough": 7200}
STUBS = [
    "event loop: VirtualLoop (symbolic ticks, solver-chosen delivery iteration and batching)",
    "struct/bytes/enum lowering (TTL bytes of every Subscribe are symbolic)",
    "random.uniform: not drawn (initial delay window 0..0)",
]
ASSUMPTIONS = [
    "histories of at most K events from the initial state (announcer started, one instance offering eventgroups 5 and 6, no subscriptions)",
    "non-cyclic offer configuration and zero send-collection timeout so that only subscription timers are pending (offer lifecycle: C10; queueing: C15)",
    "stop/start sequences are well formed (stop only what runs); double stops belong to C10",
    "positive/negative acknowledgements are attributed to Subscribe entries by per-subscriber order (exactly-one-answer is C11)",
]
REACH = {"H06": ["h06.subscribed", "h06.unsubscribed", "h06.rejected", "h06.end", "h06.reboot-order"]}
SOURCES = {"P": P, "Q": Q}
SVC = (0x2000, 1, 1)
GROUPS = [5, 6]
EPS = [((192, 0, 2, 50), 4000), ((192, 0, 2, 51), 4001)]


def bounds(tier):
    k = "K<=2 over the full alphabet and K=3 over the core alphabet (eventgroup 5, counter 0, endpoint 1, two subscribers)"
    if tier == "thorough":
        k = "K<=2 over the full alphabet, K=3 over the medium alphabet (two eventgroups, one counter/endpoint, two subscribers) and K=4 (infinite TTLs) over the core alphabet without reboot evidence from the second subscriber"
    return {"H06": k + "; plus K=4 histories (infinite TTLs) 'two distinct subscriptions of one subscriber, then two events from {StopSubscribe of either, reboot-only message, Subscribe with/without reboot evidence, service stop, connection loss}'; alphabet: Subscribe/StopSubscribe(eventgroup in 2, counter in {0,1}, endpoint in 2, subscriber in 2, with/without reboot evidence), reboot-only message, stop/start of the service, stop/start of the announcer, connection loss; Subscribe TTL symbolic 1..0xFFFFFF; listener accept/reject symbolic per call; gaps 0..2^40 ticks; delivery iteration/batching symbolic"}


def _alphabet(groups, counters, eps, sources="PQ"):
    evs = []
    for a in sources:
        for g in groups:
            for c in counters:
                for e in eps:
                    for rb in (0, 1):
                        evs.append(["sub", g, c, e, a, rb])
                        evs.append(["stopsub", g, c, e, a, rb])
        evs.append(["rebootmsg", a])
    evs += [["svc_stop"], ["svc_start"], ["ann_stop"], ["ann_start"], ["lost"]]
    return evs


def _valid(seq):
    sent = set()
    first = None
    ann, svc = True, True  # announcer started, service announced
    for ev in seq:
        if ev[0] in ("sub", "stopsub", "rebootmsg"):
            a = ev[4] if ev[0] != "rebootmsg" else ev[1]
            rb = ev[5] if ev[0] != "rebootmsg" else 1
            if first is None:
                first = a
                if a != "P":
                    return False
            if rb and a not in sent:
                return False
            sent.add(a)
        elif ev[0] == "svc_stop":
            if not svc:
                return False
            svc = False
        elif ev[0] == "svc_start":
            if svc:
                return False
            svc = True
        elif ev[0] in ("ann_stop", "lost"):
            if not ann:
                return False
            ann = False
        elif ev[0] == "ann_start":
            if ann:
                return False
            ann = True
    return True


def cases(tier, seed):
    full = _alphabet([0, 1], [0, 1], [0, 1])
    core = _alphabet([0], [0], [0])
    medium = _alphabet([0, 1], [0], [0])
    tiny = [e for e in core if not (e[0] in ("sub", "stopsub") and e[4] == "Q" and e[5]) and e != ["rebootmsg", "Q"]]
    plan = [(full, 1), (full, 2), (core, 3)] if tier == "quick" else [(full, 1), (full, 2), (medium, 3), (tiny, 4)]
    out, seen = [], set()
    # two distinct subscriptions of one subscriber, then two further events (K = 4): state
    # that survives earlier steps (indexes, caches, timers) meets StopSubscribe / reboot / stop
    tails = [["stopsub", 0, 0, 0, "P", 0], ["stopsub", 1, 0, 0, "P", 0], ["rebootmsg", "P"], ["sub", 0, 0, 0, "P", 1], ["sub", 0, 0, 0, "P", 0], ["svc_stop"], ["lost"]]
    second = [["sub", 1, 0, 0, "P", 0], ["sub", 0, 1, 0, "P", 0]] + ([["sub", 0, 0, 1, "P", 0], ["sub", 0, 0, 0, "Q", 0]] if tier == "thorough" else [])
    for y in second:
        for e3 in tails:
            for e4 in tails:
                combo = (["sub", 0, 0, 0, "P", 0], y, e3, e4)
                if _valid(combo) and (tier == "thorough" or e3[0] == "stopsub" or e4[0] in ("rebootmsg", "sub")):
                    seen.add(repr(combo))
                    out.append({"h": "H06", "evs": [list(e) for e in combo], "inf": True, "_w": 4})
    for alpha, k in plan:
        for combo in itertools.product(alpha, repeat=k):
            if not _valid(combo):
                continue
            key = repr(combo)
            if key in seen:
                continue
            seen.add(key)
            out.append({"h": "H06", "evs": [list(e) for e in combo], "inf": k >= 4, "_w": k})
    return out


def h06(E, M, case):
    loop = new_loop(E)
    sd, cfg = M.sd, M.config
    stub_uniform(E, M)
    tm = sd.Timings(INITIAL_DELAY_MIN=0, INITIAL_DELAY_MAX=0, REPETITIONS_MAX=0, CYCLIC_OFFER_DELAY=0, SEND_COLLECTION_TIMEOUT=0, ANNOUNCE_TTL=TTL_FOREVER)
    prot = sd.ServiceDiscoveryProtocol(MC, timings=tm)
    tr = RecTransport(loop)
    prot.transport = tr
    log = []  # (kind, key)
    asks = []

    def key_of(sub, src):
        eps = tuple(sorted((bytes(o.address.packed), int(o.port)) for o in sub.endpoints))
        return (src, sub.id, sub.counter, eps)

    class SL(sd.ServerServiceListener):
        def client_subscribed(self, sub, src):
            acc = E.flag("accept%d" % len(asks))
            asks.append(acc)
            if not acc:
                log.append(("rejected", key_of(sub, src)))
                raise sd.NakSubscription
            log.append(("subscribed", key_of(sub, src)))

        def client_unsubscribed(self, sub, src):
            log.append(("unsubscribed", key_of(sub, src)))

    svc = cfg.Service(SVC[0], SVC[1], SVC[2], 0, eventgroups=frozenset(GROUPS))
    inst = sd.ServiceInstance(svc, SL(), prot.announcer, tm)
    loop.call(prot.announcer.announce_service, inst)
    loop.call(prot.announcer.start)
    loop.settle()
    n_sent0 = len(tr.sent)

    sess = {"P": 0, "Q": 0}
    extra_nacks = []
    subs_ev = []  # per Subscribe(ttl>0) event: dict(i, key, t, ttl, src)
    removals = []  # (i, predicate over key)
    running = True
    t = 0
    sc = Script(loop, E)
    evs = case["evs"]
    last_inject = [0]
    for i, ev in enumerate(evs):
        t = t + E.int("dt%d" % i, 0, 2**40)
        kind = ev[0]
        # nothing shares a loop iteration with a connection loss that precedes it
        join = not (i > 0 and evs[i - 1][0] == "lost")
        if kind in ("sub", "stopsub", "rebootmsg"):
            a = ev[4] if kind != "rebootmsg" else ev[1]
            rb = ev[5] if kind != "rebootmsg" else 1
            addr = SOURCES[a]
            if rb:
                sess[a] = 1
                removals.append((i - 0.5, lambda k, addr=addr: k[0] == addr))
            else:
                sess[a] += 1
            entries, options = [], []
            if kind != "rebootmsg":
                g, c, (ip, port) = GROUPS[ev[1]], ev[2], EPS[ev[3]]
                if kind != "sub":
                    ttl = 0
                elif case.get("inf"):
                    ttl = TTL_FOREVER  # K=4 family: no expiry timers, only ordering matters
                else:
                    ttl = E.int("ttl%d" % i, 1, 0xFFFFFF)
                entries.append(wire.sd_entry_bytes(wire.T_SUBSCRIBE, 0, 0, 1, 0, SVC[0], SVC[1], SVC[2], ttl, wire.eventgroup_word(c, g)))
                options.append(wire.sd_option_bytes(wire.OPT_V4_ENDPOINT, wire.ip_option_data(ip, wire.PROTO_UDP, port)))
                key = (addr, g, c, ((bytes(ip), port),))
                if kind == "sub":
                    subs_ev.append({"i": i, "key": key, "t": t, "ttl": ttl, "src": addr, "running": running})
                else:
                    removals.append((i, lambda k, key=key: k == key))
                    if not running:
                        # nobody declares the eventgroup right now: the announcer answers this
                        # StopSubscribe with a negative acknowledgement of its own
                        extra_nacks.append({"i": i, "src": addr})
            data = mk(E, wire.sd_message(sess[a], 0xC0, entries, options))

            def cb(d=data, addr=addr, last=(i == len(evs) - 1)):
                if last:
                    last_inject[0] = len(log)
                prot.datagram_received(d, addr, False)

            sc.at(t, cb, "ev%d" % i, joinable=join)
        else:
            if kind == "svc_stop":
                sc.at(t, lambda: prot.announcer.stop_announce_service(inst), "ev%d" % i, joinable=join)
                running = False
            elif kind == "svc_start":
                sc.at(t, lambda: prot.announcer.announce_service(inst), "ev%d" % i, joinable=False)
                running = True
            elif kind == "ann_stop":
                sc.at(t, prot.announcer.stop, "ev%d" % i, joinable=join)
                running = False
            elif kind == "ann_start":
                # the application restarts after it saw the stop: never in the very batch
                # that carries a connection loss whose handling is still pending
                sc.at(t, prot.announcer.start, "ev%d" % i, joinable=False)
                running = True
            elif kind == "lost":
                sc.at(t, lambda: prot.connection_lost(None), "ev%d" % i)
                running = False
            if kind in ("svc_stop", "ann_stop", "lost"):
                removals.append((i, lambda k: True))
    sc.flush()
    loop.settle()

    def streams():
        per = {}
        for kind, key in log:
            per.setdefault(key, []).append(kind)
        return per

    def check_at(t_end, tag):
        per = streams()
        E.observe([tag, {repr(k): v for k, v in sorted(per.items())}])
        # acknowledgements, attributed per subscriber in order
        acks = {}
        for x in sd_entries_sent(tr.sent[n_sent0:]):
            if x["e"]["type"] == wire.T_SUBSCRIBE_ACK:
                acks.setdefault(x["to"], []).append(x["e"]["ttl"])
        nth = {}
        for s in sorted(subs_ev + extra_nacks, key=lambda x: x["i"]):
            j = nth.get(s["src"], 0)
            nth[s["src"]] = j + 1
            al = acks.get(s["src"], [])
            s["ack"] = al[j] if j < len(al) else None
        for key, seq in sorted(per.items()):
            eff = [k for k in seq if k != "rejected"]
            if "subscribed" in eff:
                E.reach("h06.subscribed")
            if "unsubscribed" in eff:
                E.reach("h06.unsubscribed")
            if "rejected" in seq:
                E.reach("h06.rejected")
            ok = all(k == ("subscribed" if j % 2 == 0 else "unsubscribed") for j, k in enumerate(eff))
            E.require(ok, "notifications per (subscriber, subscription) alternate subscribed, unsubscribed, ... beginning with subscribed; a rejected one is never reported unsubscribed", {"at": tag, "key": repr(key), "seq": seq, "history": evs})
        held = set()
        for addr, d in inst.subscriptions.store.items():
            for sub in d:
                held.add(key_of(sub, addr))
        view = {key for key, seq in per.items() if [k for k in seq if k != "rejected"][-1:] == ["subscribed"]}
        E.require(held == view, "the recorded subscriptions are exactly those whose latest notification is 'subscribed' (rejected ones are not recorded)", {"at": tag, "held": sorted(map(repr, held)), "view": sorted(map(repr, view)), "history": evs})

        def covering(key):
            """conditions under which some positively acknowledged Subscribe still covers t_end"""
            conds = []
            for s in subs_ev:
                if s["key"] != key or s["ack"] is None:
                    continue
                if any(ri > s["i"] and pred(key) for ri, pred in removals):
                    continue
                alive = (s["ttl"] == TTL_FOREVER) if t_end is None else E.Or(s["ttl"] == TTL_FOREVER, s["t"] + s["ttl"] * 1000 > t_end)
                conds.append(E.And(s["ack"] != 0, alive))
            return conds

        keys = set(per) | {s["key"] for s in subs_ev}
        for key in sorted(keys):
            conds = covering(key)
            live = E.Or(*conds) if conds else False
            E.require(E.Implies(key in view, live), "latest notification 'subscribed' only from acceptance until TTL end, StopSubscribe, reboot of the subscriber or service stop", {"at": tag, "key": repr(key), "seq": per.get(key), "history": evs})
            # the *last* Subscribe for the key decides what must be held
            mine = [s for s in subs_ev if s["key"] == key]
            if mine:
                s = mine[-1]
                removed = any(ri > s["i"] and pred(key) for ri, pred in removals)
                if not removed and s["ack"] is not None:
                    alive = (s["ttl"] == TTL_FOREVER) if t_end is None else E.Or(s["ttl"] == TTL_FOREVER, s["t"] + s["ttl"] * 1000 > t_end)
                    E.require(E.Implies(E.And(s["ack"] != 0, alive), key in view and key in held), "a Subscribe answered with a positive acknowledgement stays recorded until TTL end, StopSubscribe, reboot or service stop", {"at": tag, "key": repr(key), "seq": per.get(key), "ack": s["ack"], "history": evs})

    check_at(t, "idle")
    tail_end = len(log)
    loop.settle(2**62)
    loop_clean(E, loop)
    E.reach("h06.end")
    check_at(None, "end-of-time")
    last = evs[-1]
    if last[0] == "sub" and last[5]:
        E.reach("h06.reboot-order")
        addr = SOURCES[last[4]]
        tail = [x for x in log[last_inject[0] : tail_end] if x[1][0] == addr]
        asked = [j for j, x in enumerate(tail) if x[0] in ("subscribed", "rejected")]
        if asked:
            late = [x for x in tail[asked[-1] + 1 :] if x[0] == "unsubscribed"]
            E.require(not late, "a reboot revealed by a message is applied before the Subscribe entries of that message", {"tail": [[x[0], repr(x[1])] for x in tail], "history": evs})


SCENARIOS = {"H06": h06}

"""C15 - queued SD entries are sent exactly once, in order, to the right peer, in time."""
from __future__ import annotations

import itertools

from oracle import wire
from symx.vloop import Script

from .common import MC, P, Q, RecTransport, loop_clean, new_loop

PROPERTY = "C15"
BUDGET_S = {"quick": 900, "thorough": 7200}
STUBS = ["event loop: VirtualLoop (symbolic ticks; requests injected at solver-chosen instants/iterations, also exactly when a collection window closes)", "struct/bytes lowering"]
ASSUMPTIONS = [
    "histories of at most K queue requests (plus one burst) from an idle announcer; collection timeout 0 or 5 ms; gaps 0..20 ms symbolic",
    "entries are tagged by their service id; the ledger is decoded from transport.sendto with the independent reader",
]
REACH = {"H15": ["h15.sent", "h15.shared-datagram", "h15.end"]}
DESTS = [None, P, Q]


def bounds(tier):
    k = 5 if tier == "thorough" else 4
    return {"H15": "K<=%d queue_send requests, destination per request from {multicast, P, Q}, an announcer stop() at any position, one burst of 16..20 entries; gaps symbolic 0..20 ms (covers 'exactly at window close'), delivery iteration/batching symbolic; collection timeout in {0, 5 ms}" % k}


def cases(tier, seed):
    K = 5 if tier == "thorough" else 4
    out = []
    for col in (0, 5):
        for k in range(1, K + 1):
            for combo in itertools.product(range(3), repeat=k):
                if combo[0] != 0 and 0 in combo:
                    pass
                # symmetry: P and Q are interchangeable - first unicast peer used is P
                uni = [d for d in combo if d != 0]
                if uni and uni[0] != 1:
                    continue
                for stop_at in ([None] if k < K or tier == "quick" and k == K and len(set(combo)) > 2 else [None, 0, k // 2]):
                    out.append({"h": "H15", "collect": col, "dests": list(combo), "stop_at": stop_at, "_w": k})
        for n in (16, 17, 20):
            out.append({"h": "H15", "collect": col, "dests": [0, 1], "burst": n, "stop_at": None, "_w": 3})
        # a stopped instance's queued unicast offers are discarded (see ServiceInstance.stop):
        # the queue for that peer must keep working afterwards
        # the same entry (equal by value) requested again: exactly-once is per request
        for dests in ([1, 1], [0, 0], [1, 1, 1], [0, 1, 0], [1, 0, 1]):
            out.append({"h": "H15", "collect": col, "dests": dests, "same_tag": True, "stop_at": None, "_w": 3})
        for tail in ([1], [1, 1], [1, 0], [2, 1]):
            out.append({"h": "H15", "collect": col, "dests": [1] + tail, "purge_after": 0, "stop_at": None, "_w": 3})
        # two pending answers of the stopped instance with other entries queued behind them
        for tail in ([1], [1, 1], [1, 2]):
            out.append({"h": "H15", "collect": col, "dests": [1] + tail, "purge_after": 0, "purge_n": 2, "purge_late": True, "stop_at": None, "_w": 3})
    return out


def h15(E, M, case):
    loop = new_loop(E)
    sd, hdr = M.sd, M.header
    C = case["collect"]
    tm = sd.Timings(SEND_COLLECTION_TIMEOUT=C / 1000 if C else 0)
    prot = sd.ServiceDiscoveryProtocol(MC, timings=tm)
    tr = RecTransport(loop)
    prot.transport = tr
    ann = prot.announcer
    loop.call(ann.start)
    reqs = []  # (tag, dest, t)
    sc = Script(loop, E)
    t = 0
    tag = [0x100]

    def entry(tg):
        return hdr.SOMEIPSDEntry(sd_type=hdr.SOMEIPSDEntryType.OfferService, service_id=tg, instance_id=1, major_version=1, ttl=3, minver_or_counter=0)

    def request(dest, t, name, n=1):
        tags = list(range(tag[0], tag[0] + n))
        if not case.get("same_tag"):
            tag[0] += n
        for tg in tags:
            reqs.append((tg, dest, t))

        def cb():
            for tg in tags:
                ann.queue_send(entry(tg), remote=dest)

        sc.at(t, cb, name)

    purged = []
    inst = None
    if case.get("purge_after") is not None:
        svc = M.config.Service(0x0F00, 1, 1, 0)
        inst = sd.ServiceInstance(svc, sd.ServerServiceListener(), ann, tm)
    for i, di in enumerate(case["dests"]):
        t = t + E.int("dt%d" % i, 0, 20)
        if inst is not None and i == case["purge_after"]:
            # request i is an offer of `inst` for a unicast peer (a FindService answer); the
            # instance's queued offers are discarded some time later
            tg = tag[0]
            tag[0] += 1
            purged.append(tg)
            reqs.append((0x0F00, DESTS[di], t))
            for rep in range(case.get("purge_n", 1)):
                if rep:
                    reqs.append((0x0F00, DESTS[di], t))
                sc.at(t, lambda d=DESTS[di]: inst._send_offer(d), "q%d_%d" % (i, rep))
            if not case.get("purge_late"):
                t = t + E.int("dtp", 0, 20)
                sc.at(t, lambda: ann.discard_queued_offers(inst), "purge")
            continue
        if case.get("stop_at") == i:
            sc.at(t, ann.stop, "stop%d" % i)
        # a burst is one application call sequence inside a single callback
        request(DESTS[di], t, "q%d" % i, n=case["burst"] if case.get("burst") and i == 0 else 1)
    if inst is not None and case.get("purge_late"):
        # the discard comes after all other requests (0..20 ms later)
        t = t + E.int("dtp", 0, 20)
        sc.at(t, lambda: ann.discard_queued_offers(inst), "purge")
    sc.flush()
    H = t + 50
    loop.settle(H)
    loop_clean(E, loop)
    E.reach("h15.end")
    sent = []  # (tag, addr, t, datagram index)
    for n, (ts, data, addr) in enumerate(tr.sent):
        msgs = wire.parse_someip_all(data)
        E.require(len(msgs) == 1, "one SD message per datagram")
        sdm = wire.parse_sd(msgs[0]["payload"])
        if len(sdm["entries"]) > 1:
            E.reach("h15.shared-datagram")
        for e in sdm["entries"]:
            sent.append((e["service"], addr, ts, n))
    E.observe([[s[0], str(s[1]), s[2], s[3]] for s in sent])
    if case.get("same_tag"):
        # all requests carry an equal entry: each must leave once, to its own destination,
        # in time; matched in order per destination
        E.require(len(sent) == len(reqs), "every queued entry is transmitted exactly once, also when an equal entry is queued again", {"queued": len(reqs), "sent": len(sent)})
        for d in DESTS:
            want = [r for r in reqs if r[1] == d]
            got = [x for x in sent if x[1] == (d if d is not None else MC)]
            E.require(len(want) == len(got), "each destination receives as many entries as were queued for it", {"dest": str(d), "queued": len(want), "sent": len(got)})
            for r, x in zip(want, got):
                E.reach("h15.sent")
                E.require(E.And(x[2] >= r[2], x[2] <= r[2] + C), "an entry leaves no later than the collection timeout after it was queued")
        return
    for tg, dest, tq in reqs:
        mine = [s for s in sent if s[0] == tg]
        if tg == 0x0F00:
            # discarded offers: each sent once if it left before the discard, else not at all
            nreq = len([r for r in reqs if r[0] == 0x0F00])
            E.require(len(mine) <= nreq, "a discarded offer is sent at most once")
            continue
        E.require(len(mine) == 1, "every queued entry is transmitted exactly once", {"tag": tg, "times": len(mine)})
        for s in mine:
            E.reach("h15.sent")
            E.require(s[1] == (dest if dest is not None else MC), "entries go to the destination they were queued for", {"tag": tg, "to": str(s[1])})
            E.require(E.And(s[2] >= tq, s[2] <= tq + C), "an entry leaves no later than the collection timeout after it was queued", {"tag": tg})
    E.require(len([x for x in sent if x[0] != 0x0F00]) == len([r for r in reqs if r[0] != 0x0F00]), "nothing is transmitted that was not queued")
    for d in DESTS:
        want = [tg for tg, dest, tq in reqs if dest == d and tg != 0x0F00]
        got = [s[0] for s in sent if s[1] == (d if d is not None else MC) and s[0] != 0x0F00]
        E.require(got == want, "entries for one destination leave in the order they were queued", {"dest": str(d), "got": got, "want": want})
    if C == 0:
        E.require(len(tr.sent) == len(reqs), "with a zero collection timeout every entry is sent in a message of its own")


SCENARIOS = {"H15": h15}

"""C02 - SD messages round-trip: every entry keeps exactly its own options."""
from __future__ import annotations

import ipaddress
import itertools

from oracle import wire

from .c07 import mk
from .common import MC, P, RecTransport

PROPERTY = "C02"
BUDGET_S = {"quick": 600, "thorough": 3000}
STUBS = ["struct/bytes/bytearray/b''.join/enum lowering", "option registry: equality-scan dict", "ip addresses built from symbolic bytes: SymIP value object"]
ASSUMPTIONS = [
    "H02b: option values from an alphabet of 3 (the placement search only compares and hashes options); shared array <= 3 (quick) / 4 (thorough) elements, runs <= 2 / 3",
    "H02a: <= 3 entries per message; options of an entry are concrete objects, every numeric field symbolic",
    "Subscribe/SubscribeAck entries with minver_or_counter >= 2^20 count as unrepresentable: encoding succeeds and decoding raises ParseError (nothing is silently mis-decoded)",
    "configuration keys non-empty ASCII without '=', values ASCII (as the quantifier states)",
]
REACH = {
    "H02a": ["h02a.roundtrip"],
    "H02b": ["h02b.shared", "h02b.appended"],
    "H02c": ["h02c.error", "h02c.ok"],
    "H02d": ["h02d.roundtrip"],
    "H02e": ["h02e.delivered"],
}


def bounds(tier):
    return {
        "H02a": "1..3 entries; type over the four entry types; service/instance 16-bit, major 8-bit, TTL 24-bit, minor 32-bit or counter(4)+eventgroup(16), reboot/unicast flags, unknown flag bits 0..63: all symbolic; option runs from 4 concrete layouts (none / shared / overlapping / disjoint); SOME/IP session id symbolic",
        "H02b": "one assign_option_index step from an arbitrary shared array (length <= %d) with two runs (length <= %d each) over an alphabet of 3 option values" % ((4, 3) if tier == "thorough" else (3, 2)),
        "H02c": "run lengths {0,1,14,15,16,17} in either run position; shared arrays of 250..300 distinct options; arrays of 20..254 options followed by an entry re-using options from the start / middle / end; each numeric field symbolic over [0, 2*max]",
        "H02d": "every option kind: symbolic port / protocol number (TCP, UDP, unknown) / priority / weight / address bytes; unknown option types 0..255 with <= 4 symbolic payload bytes; configuration items with symbolic ASCII keys/values of length <= 3, '=' inside values, value-less keys, item lengths 254..256",
        "H02e": "send_sd -> bytes at transport.sendto -> peer datagram_received -> entries seen by sd_message_received, 1..2 entries of every type with options",
    }


def _opts(M, n=20, base=1000):
    hdr = M.header
    return [hdr.IPv4EndpointOption(ipaddress.IPv4Address("192.0.2.1"), hdr.L4Protocols.UDP, base + i) for i in range(n)]


LAYOUTS = ["none", "shared", "overlap", "disjoint", "same"]


def cases(tier, seed):
    out = []
    for n in (1, 2, 3):
        for lay in LAYOUTS:
            out.append({"h": "H02a", "n": n, "layout": lay, "_w": n * n})
    amax, rmax = (4, 3) if tier == "thorough" else (3, 2)
    for alen in range(amax + 1):
        for r1 in range(rmax + 1):
            for r2 in range(rmax + 1):
                out.append({"h": "H02b", "alen": alen, "r1": r1, "r2": r2, "_w": 3 ** (alen + r1 + r2) // 20 + 1})
    for a, b in itertools.product((0, 1, 14, 15, 16, 17), repeat=2):
        out.append({"h": "H02c", "kind": "runs", "r1": a, "r2": b})
    for n in (250, 254, 255, 256, 257, 300):
        out.append({"h": "H02c", "kind": "array", "n": n, "_w": 6})
    for n in (20, 31, 32, 33, 40, 64, 254):
        for where in ("first", "mid", "last"):
            out.append({"h": "H02c", "kind": "reuse", "n": n, "where": where, "_w": 2})
    for fld in ("service_id", "instance_id", "major_version", "ttl", "minver", "counter_eg", "flags_unknown"):
        out.append({"h": "H02c", "kind": "field", "field": fld})
    for kind in ("v4ep", "v4mc", "v4sd", "v6ep", "v6mc", "v6sd", "loadbal", "unknown0", "unknown2", "unknown4"):
        out.append({"h": "H02d", "kind": kind})
    for shape in (["k"], ["kv"], ["k", "kv"], ["kv", "kv"], ["k=v=", "k"], ["k="], ["k=", "kv"]):
        out.append({"h": "H02d", "kind": "config", "shape": shape})
    for ln in (254, 255, 256):
        out.append({"h": "H02d", "kind": "configlen", "len": ln})
    for combo in ("offer", "find", "subscribe", "ack", "offer+subscribe", "offer+offer"):
        out.append({"h": "H02e", "combo": combo})
    return out


def _entry(E, M, i, runs, types=None):
    hdr = M.header
    ty = E.pick("type%d" % i, types or list(hdr.SOMEIPSDEntryType))
    eventgroup = ty in (hdr.SOMEIPSDEntryType.Subscribe, hdr.SOMEIPSDEntryType.SubscribeAck)
    val = E.int(("cnt_eg%d" if eventgroup else "minor%d") % i, 0, 0xFFFFF if eventgroup else 0xFFFFFFFF)
    return hdr.SOMEIPSDEntry(
        sd_type=ty,
        service_id=E.int("sid%d" % i, 0, 0xFFFF),
        instance_id=E.int("iid%d" % i, 0, 0xFFFF),
        major_version=E.int("maj%d" % i, 0, 0xFF),
        ttl=E.int("ttl%d" % i, 0, 0xFFFFFF),
        minver_or_counter=val,
        options_1=tuple(runs[0]),
        options_2=tuple(runs[1]),
    )


def _runs_for(layout, O, i):
    if layout == "none":
        return ((), ())
    if layout == "shared":
        return ((O[0], O[1]), (O[1],))
    if layout == "overlap":
        return ((O[i], O[i + 1]), (O[i + 1], O[i + 2]))
    if layout == "disjoint":
        return ((O[3 * i],), (O[3 * i + 1], O[3 * i + 2]))
    return ((O[0],), (O[0],))


def _check_wire_entry(E, we, ent, sd, all_opts, label):
    """the independent reader's view of one entry equals the original"""
    hdrT = ent.sd_type.value
    E.require(E.And(we["type"] == hdrT, we["service"] == ent.service_id, we["instance"] == ent.instance_id, we["major"] == ent.major_version, we["ttl"] == ent.ttl, we["last32"] == ent.minver_or_counter), label + ": entry fields on the wire")
    o1, o2 = wire.entry_options(sd, we)
    E.require(len(o1) == len(ent.options_1) and len(o2) == len(ent.options_2), label + ": run lengths on the wire", {"wire": [len(o1), len(o2)], "orig": [len(ent.options_1), len(ent.options_2)]})
    for wo, oo in zip(list(o1) + list(o2), list(ent.options_1) + list(ent.options_2)):
        E.require(E.eq(mk(E, wire.sd_option_bytes(wo["type"], wo["data"][1:], wo["data"][0])), mk(E, list(oo.build()))), label + ": option bytes on the wire are the entry's own options")


def h02a(E, M, case):
    hdr = M.header
    O = _opts(M)
    ents = [_entry(E, M, i, _runs_for(case["layout"], O, i)) for i in range(case["n"])]
    rb, uc, fu = E.bool("reboot"), E.bool("unicast"), E.int("flags_unknown", 0, 63)
    msg = hdr.SOMEIPSDHeader(entries=tuple(ents), flag_reboot=rb, flag_unicast=uc, flags_unknown=fu)
    payload = msg.assign_option_indexes().build()
    sess = E.int("session", 1, 0xFFFF)
    data = hdr.SOMEIPHeader(service_id=hdr.SD_SERVICE, method_id=hdr.SD_METHOD, client_id=0, session_id=sess, interface_version=1, message_type=hdr.SOMEIPMessageType.NOTIFICATION, payload=payload).build()
    # independent reading of the bytes
    msgs = wire.parse_someip_all(data)
    E.require(len(msgs) == 1 and msgs[0]["service"] == 0xFFFF and msgs[0]["method"] == 0x8100, "SD messages are SOME/IP notifications of service 0xFFFF method 0x8100")
    E.require(msgs[0]["session"] == sess, "session id on the wire")
    sd = wire.parse_sd(msgs[0]["payload"])
    E.require(E.And(E.Iff(sd["reboot"] == 1, rb), E.Iff(sd["unicast"] == 1, uc), sd["flags"] % 64 == fu), "flag byte: 0x80 reboot, 0x40 unicast, low six bits kept")
    E.require(len(sd["entries"]) == len(ents) and len(sd["rest"]) == 0, "entry count on the wire")
    for i, (we, ent) in enumerate(zip(sd["entries"], ents)):
        _check_wire_entry(E, we, ent, sd, O, "entry %d" % i)
    # the library's own decode
    h2, rest = hdr.SOMEIPHeader.parse(data)
    m2, rest2 = hdr.SOMEIPSDHeader.parse(h2.payload)
    m2 = m2.resolve_options()
    E.reach("h02a.roundtrip")
    E.require(len(rest) == 0 and len(rest2) == 0, "nothing left over")
    E.require(E.And(E.eq(m2.flag_reboot, rb), E.eq(m2.flag_unicast, uc), m2.flags_unknown == fu), "flags survive the round trip")
    E.require(len(m2.entries) == len(ents), "same number of entries")
    for i, (a, c) in enumerate(zip(ents, m2.entries)):
        E.observe([i, int(c.sd_type), c.service_id, c.instance_id, c.major_version, c.ttl, c.minver_or_counter, len(c.options_1), len(c.options_2)])
        E.require(E.And(c.sd_type == a.sd_type, c.service_id == a.service_id, c.instance_id == a.instance_id, c.major_version == a.major_version, c.ttl == a.ttl, c.minver_or_counter == a.minver_or_counter), "entry %d: fields survive the round trip" % i)
        E.require(tuple(c.options_1) == tuple(a.options_1), "entry %d keeps exactly its first option run, in order" % i, {"got": len(c.options_1), "want": len(a.options_1)})
        E.require(tuple(c.options_2) == tuple(a.options_2), "entry %d keeps exactly its second option run, in order" % i, {"got": len(c.options_2), "want": len(a.options_2)})


def h02b(E, M, case):
    hdr = M.header
    alpha = _opts(M, 3)
    arr = [alpha[E.choice("a%d" % i, 3)] for i in range(case["alen"])]
    r1 = tuple(alpha[E.choice("x%d" % i, 3)] for i in range(case["r1"]))
    r2 = tuple(alpha[E.choice("y%d" % i, 3)] for i in range(case["r2"]))
    ent = hdr.SOMEIPSDEntry(sd_type=hdr.SOMEIPSDEntryType.OfferService, service_id=1, instance_id=2, major_version=3, ttl=4, minver_or_counter=5, options_1=r1, options_2=r2)
    options = list(arr)
    a = ent.assign_option_index(options)
    E.observe([a.option_index_1, a.num_options_1, a.option_index_2, a.num_options_2, len(options)])
    E.require(options[: len(arr)] == arr, "the shared array only grows: indexes handed out earlier stay valid")
    E.require(a.num_options_1 == len(r1) and a.num_options_2 == len(r2), "run counts are the run lengths")
    res = a.resolve_options(tuple(options))
    E.require(tuple(res.options_1) == r1 and tuple(res.options_2) == r2, "resolving the assigned indexes yields exactly the two original runs", {"i1": a.option_index_1, "i2": a.option_index_2})
    E.require(len(options) <= len(arr) + len(r1) + len(r2), "at most the two runs are appended")
    if len(options) == len(arr):
        E.reach("h02b.shared")
    else:
        E.reach("h02b.appended")
    # _find as a unit
    for needle in (r1, r2):
        if needle:
            r = hdr._find(options, needle)
            E.require(r is not None and tuple(options[r : r + len(needle)]) == needle, "_find returns an index at which the needle really occurs")


def h02c(E, M, case):
    hdr = M.header
    O = _opts(M, 320)
    kind = case["kind"]
    representable = True
    if kind == "runs":
        r1, r2 = case["r1"], case["r2"]
        runs = (tuple(O[:r1]), tuple(O[20 : 20 + r2]))
        ents = [hdr.SOMEIPSDEntry(hdr.SOMEIPSDEntryType.OfferService, 1, 2, 3, 4, 5, options_1=runs[0], options_2=runs[1])]
        representable = r1 <= 15 and r2 <= 15
    elif kind == "reuse":
        # n distinct options, then one entry whose runs repeat options already in the array
        n = case["n"]
        ents = []
        for k in range(0, n, 15):
            ents.append(hdr.SOMEIPSDEntry(hdr.SOMEIPSDEntryType.OfferService, 1, len(ents), 3, 4, 5, options_1=tuple(O[k : min(n, k + 15)])))
        p0 = {"first": 0, "mid": n // 2, "last": n - 2}[case["where"]]
        ents.append(hdr.SOMEIPSDEntry(hdr.SOMEIPSDEntryType.OfferService, 7, 7, 3, 4, 5, options_1=tuple(O[p0 : p0 + 2]), options_2=(O[n - 1],)))
        representable = True
    elif kind == "array":
        n = case["n"]
        # n distinct options, referenced by entries with runs of <= 15
        ents = []
        for k in range(0, n, 15):
            ents.append(hdr.SOMEIPSDEntry(hdr.SOMEIPSDEntryType.OfferService, 1, len(ents), 3, 4, 5, options_1=tuple(O[k : min(n, k + 15)])))
        # the last run must still be addressable: index <= 255 and index+count <= array
        representable = all(k <= 255 for k in range(0, n, 15))
    else:
        fld = case["field"]
        vals = dict(service_id=1, instance_id=2, major_version=3, ttl=4, minver_or_counter=5)
        ty = hdr.SOMEIPSDEntryType.OfferService
        fu = 0
        idx = None
        if fld in ("service_id", "instance_id"):
            v = E.int("v", 0, 2 * 0xFFFF + 1)
            vals[fld] = v
            representable = v <= 0xFFFF
        elif fld == "major_version":
            v = E.int("v", 0, 0x1FF)
            vals[fld] = v
            representable = v <= 0xFF
        elif fld == "ttl":
            v = E.int("v", 0, 2 * 0xFFFFFF + 1)
            vals[fld] = v
            representable = v <= 0xFFFFFF
        elif fld == "minver":
            v = E.int("v", 0, 2 * 0xFFFFFFFF + 1)
            vals["minver_or_counter"] = v
            representable = v <= 0xFFFFFFFF
        elif fld == "counter_eg":
            ty = hdr.SOMEIPSDEntryType.Subscribe
            v = E.int("v", 0, 2 * 0xFFFFFFFF + 1)
            vals["minver_or_counter"] = v
            representable = v <= 0xFFFFF
        elif fld == "flags_unknown":
            fu = E.int("v", 0, 63)
        elif fld == "index":
            idx = E.int("v", 0, 511)
            representable = idx <= 255
        if idx is None:
            ents = [hdr.SOMEIPSDEntry(ty, options_1=(O[0],), **vals)]
        else:
            ents = [hdr.SOMEIPSDEntry(ty, option_index_1=idx, option_index_2=0, num_options_1=0, num_options_2=0, **vals)]
    fu = fu if kind == "field" else 0
    msg = hdr.SOMEIPSDHeader(entries=tuple(ents), flags_unknown=fu)
    try:
        assigned = msg if (kind == "field" and case["field"] == "index") else msg.assign_option_indexes()
        data = assigned.build()
    except Exception as exc:  # noqa: BLE001 - "encoding fails with an error"
        E.reach("h02c.error")
        E.observe(["error", type(exc).__name__])
        E.require(E.Not(representable), "a representable message encodes without error", {"error": repr(exc), "case": case})
        return
    E.reach("h02c.ok")
    E.observe(["ok", len(data)])
    try:
        m2, rest = hdr.SOMEIPSDHeader.parse(mk(E, list(data)))
        if kind == "field" and case["field"] == "index":
            same = E.And(m2.entries[0].option_index_1 == idx, m2.flags_unknown == fu)
        else:
            m2 = m2.resolve_options()
            same = E.And(
                len(m2.entries) == len(ents),
                m2.flags_unknown == fu,
                E.eq(m2.flag_reboot, msg.flag_reboot),
                E.eq(m2.flag_unicast, msg.flag_unicast),
                *[E.And(c.sd_type == a.sd_type, c.service_id == a.service_id, c.instance_id == a.instance_id, c.major_version == a.major_version, c.ttl == a.ttl, c.minver_or_counter == a.minver_or_counter, tuple(c.options_1) == tuple(a.options_1), tuple(c.options_2) == tuple(a.options_2)) for a, c in zip(ents, m2.entries)],
            )
    except hdr.ParseError:
        # emitted bytes that the decoder refuses: tolerated only for the documented
        # counter/eventgroup case
        same = kind == "field" and case["field"] == "counter_eg"
        E.require(E.And(same, E.Not(representable)), "bytes emitted for an unrepresentable eventgroup word are rejected by the decoder, nothing else is", {"case": case})
        return
    E.require(same, "when encoding succeeds the bytes decode to the original message (no silent truncation)", {"case": case, "runs": [[len(c.options_1), len(c.options_2)] for c in m2.entries][:3]})


def _sym_ascii(E, name, n, no_eq=False, nonempty=False):
    items = []
    for i in range(n):
        c = E.int("%s%d" % (name, i), 0, 127)
        if no_eq:
            E.assume(c != 0x3D)
        items.append(c)
    if E.symbolic:
        from symx.symbytes import mk_str

        return mk_str(items)
    return bytes(items).decode("ascii")


def h02d(E, M, case):
    hdr = M.header
    kind = case["kind"]
    if kind in ("v4ep", "v4mc", "v4sd", "v6ep", "v6mc", "v6sd"):
        cls = {"v4ep": hdr.IPv4EndpointOption, "v4mc": hdr.IPv4MulticastOption, "v4sd": hdr.IPv4SDEndpointOption, "v6ep": hdr.IPv6EndpointOption, "v6mc": hdr.IPv6MulticastOption, "v6sd": hdr.IPv6SDEndpointOption}[kind]
        v6 = kind.startswith("v6")
        abytes = [E.int("a%d" % i, 0, 255) for i in range(2)] + ([0] * 13 + [9] if v6 else [2, 9])
        if E.symbolic:
            from symx import symbytes

            addr = (symbytes.ipv6 if v6 else symbytes.ipv4)(mk(E, abytes))
        else:
            addr = (ipaddress.IPv6Address if v6 else ipaddress.IPv4Address)(bytes(abytes))
        pn = E.int("proto", 0, 255)
        if pn == 6:
            proto = hdr.L4Protocols.TCP
        elif pn == 17:
            proto = hdr.L4Protocols.UDP
        else:
            proto = pn
        port = E.int("port", 0, 0xFFFF)
        opt = cls(address=addr, l4proto=proto, port=port)
        expect = wire.sd_option_bytes(cls.type, wire.ip_option_data(abytes, pn, port))
    elif kind == "loadbal":
        pr, we = E.int("prio", 0, 0xFFFF), E.int("weight", 0, 0xFFFF)
        opt = hdr.SOMEIPSDLoadBalancingOption(priority=pr, weight=we)
        expect = wire.sd_option_bytes(2, wire.be(pr, 2) + wire.be(we, 2))
    elif kind.startswith("unknown"):
        n = int(kind[-1])
        ty = E.int("type", 0, 255)
        E.assume(E.And(*[ty != t for t in (1, 2, 4, 6, 0x14, 0x16, 0x24, 0x26)]))
        pl = [E.int("u%d" % i, 0, 255) for i in range(n)]
        opt = hdr.SOMEIPSDUnknownOption(type=ty, payload=mk(E, pl))
        expect = wire.be(len(pl), 2) + [ty] + pl
    elif kind == "config":
        cfgs = []
        for j, sh in enumerate(case["shape"]):
            if sh == "k":
                cfgs.append((_sym_ascii(E, "k%d_" % j, 2, no_eq=True), None))
            elif sh == "kv":
                cfgs.append((_sym_ascii(E, "k%d_" % j, 2, no_eq=True), _sym_ascii(E, "v%d_" % j, 2)))
            elif sh == "k=":
                cfgs.append((_sym_ascii(E, "k%d_" % j, 2, no_eq=True), ""))
            else:
                cfgs.append((_sym_ascii(E, "k%d_" % j, 1, no_eq=True), "v=" + "x"))
        opt = hdr.SOMEIPSDConfigOption(configs=tuple(cfgs))
        expect = None
    else:  # configlen
        ln = case["len"]
        opt = hdr.SOMEIPSDConfigOption(configs=(("k" * (ln - 2), "v"),))
        expect = None
        try:
            data = opt.build()
        except Exception as exc:  # noqa: BLE001
            E.observe(["error", type(exc).__name__])
            E.require(ln > 255, "a configuration string of at most 255 bytes encodes")
            E.reach("h02d.roundtrip")
            return
        E.require(ln <= 255, "a configuration string longer than 255 bytes is refused, not truncated")
    data = opt.build()
    if expect is not None:
        E.require(E.eq(mk(E, list(data)), mk(E, expect)), "option bytes follow the SOME/IP-SD option layout (length, type, reserved, data)")
    else:
        wo = wire.parse_sd(wire.sd_payload(0, [], [list(data)]))["options"][0]
        items = wire.config_items(wo["data"])
        E.require(len(items) == len(opt.configs), "configuration option: item count on the wire")
    o2, rest = hdr.SOMEIPSDOption.parse(mk(E, list(data) + [0xAA]))
    E.reach("h02d.roundtrip")
    E.observe([type(o2).__name__, len(rest)])
    E.require(len(rest) == 1, "exactly the option is consumed")
    E.require(type(o2).__name__ == type(opt).__name__, "decoded option has the original kind", {"got": type(o2).__name__})
    E.require(E.eq(o2, opt), "decoded option equals the original")


def h02e(E, M, case):
    hdr, cfg, sd = M.header, M.config, M.sd
    got = []

    class Peer(sd.ServiceDiscoveryProtocol):
        def sd_message_received(self, sdhdr, addr, multicast):
            got.append(sdhdr)

    a = sd.ServiceDiscoveryProtocol(MC)
    tr = RecTransport()
    a.transport = tr
    b = Peer(MC)
    O = _opts(M, 6)
    svc = cfg.Service(E.int("sid", 0, 0xFFFF), E.int("iid", 0, 0xFFFF), E.int("maj", 0, 0xFF), E.int("min", 0, 0xFFFFFFFF), options_1=(O[0],), options_2=(O[1], O[0]))
    eg = cfg.Eventgroup(E.int("g_sid", 0, 0xFFFF), E.int("g_iid", 0, 0xFFFF), E.int("g_maj", 0, 0xFF), E.int("g_id", 0, 0xFFFF), ("192.0.2.9", 4000), hdr.L4Protocols.UDP)
    ttl = E.int("ttl", 0, 0xFFFFFF)
    sub = eg.create_subscribe_entry(ttl=ttl, counter=E.int("cnt", 0, 15))
    ents = {
        "offer": [svc.create_offer_entry(ttl)],
        "find": [svc.create_find_entry(ttl)],
        "subscribe": [sub],
        "ack": [sd.EventgroupSubscription.from_subscribe_entry(sub).to_ack_entry()],
        "offer+subscribe": [svc.create_offer_entry(ttl), sub],
        "offer+offer": [svc.create_offer_entry(ttl), svc.create_offer_entry(0)],
    }[case["combo"]]
    dest = E.pick("dest", [None, P])
    a.send_sd(ents, remote=dest)
    E.require(len(tr.sent) == 1, "one datagram")
    _, data, addr = tr.sent[0]
    b.datagram_received(data, P, False)
    E.require(len(got) == 1, "the peer decodes one SD message")
    E.reach("h02e.delivered")
    m = got[0]
    E.require(len(m.entries) == len(ents), "same number of entries")
    for x, y in zip(ents, m.entries):
        E.observe([int(y.sd_type), y.service_id, y.ttl, len(y.options_1), len(y.options_2)])
        E.require(E.And(y.sd_type == x.sd_type, y.service_id == x.service_id, y.instance_id == x.instance_id, y.major_version == x.major_version, y.ttl == x.ttl, y.minver_or_counter == x.minver_or_counter), "entry fields arrive unchanged")
        E.require(tuple(y.options_1) == tuple(x.options_1) and tuple(y.options_2) == tuple(x.options_2), "each entry arrives with exactly its own option runs")


SCENARIOS = {"H02a": h02a, "H02b": h02b, "H02c": h02c, "H02d": h02d, "H02e": h02e}

"""C19 - service and eventgroup matching obeys the wildcard laws (all field values)."""
from __future__ import annotations

import dataclasses
import ipaddress

PROPERTY = "C19"
BUDGET_S = {"quick": 600, "thorough": 900}
STUBS = ["eventgroup set of a Service: equality-scan frozenset subclass (ScanSet) so that a symbolic eventgroup id is compared, not hashed"]
ASSUMPTIONS = [
    "all four fields of both sides range over their full wire widths (16/16/8/32 bit) as z3 integers - stronger than the three-valued domain of the quantifier",
    "declared eventgroup sets are the concrete sets {} , {5}, {5, 0x8001}; the requested eventgroup id and counter are symbolic",
]
W_I, W_M, W_N = 0xFFFF, 0xFF, 0xFFFFFFFF
LAWS = ["service_spec", "symmetry", "offer_spec", "find_spec", "duality", "widen_offer", "widen_service", "subscribe", "offer_roundtrip", "for_service", "find_entry", "subscribe_entry"]
REACH = {"H19": ["h19." + l for l in LAWS]}


def bounds(tier):
    return {"H19": "12 algebraic laws, each over fully symbolic ids/versions of both sides (2^72 values per side); options: 0..2 concrete options per run"}


def cases(tier, seed):
    return [{"h": "H19", "law": l} for l in LAWS]


def _svc(E, M, p, **kw):
    return M.config.Service(E.int(p + "sid", 0, 0xFFFF), E.int(p + "iid", 0, 0xFFFF), E.int(p + "maj", 0, 0xFF), E.int(p + "min", 0, 0xFFFFFFFF), **kw)


def _fld(E, a, b, wa, wb, wild):
    """a == b, or a wildcard on a side that may carry one"""
    alts = [a == b]
    if wa:
        alts.append(a == wild)
    if wb:
        alts.append(b == wild)
    return E.Or(*alts)


def _spec(E, s, f, ws, wf):
    """ids match, wildcards honoured on side s (ws) and/or side f (wf)"""
    return E.And(
        s.service_id == f.service_id,
        _fld(E, s.instance_id, f.instance_id, ws, wf, W_I),
        _fld(E, s.major_version, f.major_version, ws, wf, W_M),
        _fld(E, s.minor_version, f.minor_version, ws, wf, W_N),
    )


def h19(E, M, case):
    law = case["law"]
    cfg, hdr = M.config, M.header
    E.reach("h19." + law)
    if law in ("service_spec", "symmetry"):
        s, f = _svc(E, M, "s_"), _svc(E, M, "f_")
        a = f.matches_service(s)
        E.observe(a)
        if law == "symmetry":
            b = s.matches_service(f)
            E.require(a == b, "description-to-description matching is symmetric")
        else:
            E.require(E.Iff(a, _spec(E, s, f, True, True)), "matches_service: ids equal, other fields equal or wildcard on either side")
    elif law == "offer_spec":
        s, f = _svc(E, M, "s_"), _svc(E, M, "f_")
        a = f.matches_offer(s.create_offer_entry())
        E.observe(a)
        E.require(E.Iff(a, _spec(E, s, f, False, True)), "matches_offer: wildcards count on the filter side only")
    elif law == "find_spec":
        s, f = _svc(E, M, "s_"), _svc(E, M, "f_")
        a = s.matches_find(f.create_find_entry())
        E.observe(a)
        E.require(E.Iff(a, _spec(E, s, f, False, True)), "matches_find: wildcards count on the request side only")
    elif law == "duality":
        s, f = _svc(E, M, "s_"), _svc(E, M, "f_")
        E.assume(E.And(s.instance_id != W_I, s.major_version != W_M, s.minor_version != W_N))
        a = s.matches_find(f.create_find_entry())
        b = f.matches_offer(s.create_offer_entry())
        E.observe([a, b])
        E.require(a == b, "a concrete service answers a filter's find entry exactly when the filter accepts its offer")
    elif law in ("widen_offer", "widen_service"):
        s, f = _svc(E, M, "s_"), _svc(E, M, "f_")
        which = E.choice("field", 3)
        f2 = dataclasses.replace(f, **[{"instance_id": W_I}, {"major_version": W_M}, {"minor_version": W_N}][which])
        if law == "widen_offer":
            ent = s.create_offer_entry()
            a, b = f.matches_offer(ent), f2.matches_offer(ent)
        else:
            a, b = f.matches_service(s), f2.matches_service(s)
        E.observe([a, b])
        E.require(E.Implies(a, b), "replacing a filter field by its wildcard never loses a match")
    elif law == "subscribe":
        from symx.symbytes import ScanSet

        egs = [ScanSet(), ScanSet({5}), ScanSet({5, 0x8001})][E.choice("egset", 3)]
        s = _svc(E, M, "s_", eventgroups=egs)
        eg_id = E.int("eg", 0, 0xFFFF)
        cnt = E.int("cnt", 0, 15)
        ent = hdr.SOMEIPSDEntry(
            sd_type=hdr.SOMEIPSDEntryType.Subscribe,
            service_id=E.int("e_sid", 0, 0xFFFF),
            instance_id=E.int("e_iid", 0, 0xFFFF),
            major_version=E.int("e_maj", 0, 0xFF),
            ttl=E.int("e_ttl", 0, 0xFFFFFF),
            minver_or_counter=cnt * 65536 + eg_id,
        )
        a = s.matches_subscribe(ent)
        E.observe(a)
        declared = E.Or(*[eg_id == g for g in sorted(egs)]) if egs else False
        spec = E.And(
            s.service_id == ent.service_id,
            E.Or(s.instance_id == W_I, s.instance_id == ent.instance_id),
            E.Or(s.major_version == W_M, s.major_version == ent.major_version),
            declared,
        )
        E.require(E.Iff(a, spec), "matches_subscribe: ids match (wildcards on the service side) and the eventgroup is declared")
    elif law == "offer_roundtrip":
        o = [hdr.IPv4EndpointOption(ipaddress.IPv4Address("192.0.2.5"), hdr.L4Protocols.UDP, 30509), hdr.SOMEIPSDLoadBalancingOption(1, 2)]
        n1, n2 = E.choice("n1", 3), E.choice("n2", 3)
        s = _svc(E, M, "s_", options_1=tuple(o[:n1]), options_2=tuple(o[2 - n2 :]))
        ttl = E.int("ttl", 0, 0xFFFFFF)
        ent = s.create_offer_entry(ttl)
        E.require(E.And(ent.sd_type == hdr.SOMEIPSDEntryType.OfferService, ent.ttl == ttl, ent.service_id == s.service_id, ent.instance_id == s.instance_id, ent.major_version == s.major_version, ent.minver_or_counter == s.minor_version), "offer entry carries ids, versions and ttl")
        E.require(tuple(ent.options_1) == tuple(s.options_1) and tuple(ent.options_2) == tuple(s.options_2), "offer entry carries both option runs")
        s2 = cfg.Service.from_offer_entry(ent)
        E.observe([s2.service_id, s2.instance_id, s2.major_version, s2.minor_version, len(s2.options_1), len(s2.options_2)])
        E.require(E.And(s2.service_id == s.service_id, s2.instance_id == s.instance_id, s2.major_version == s.major_version, s2.minor_version == s.minor_version), "description -> offer entry -> description preserves ids and versions")
        E.require(tuple(s2.options_1) == tuple(s.options_1) and tuple(s2.options_2) == tuple(s.options_2), "description -> offer entry -> description preserves options")
    elif law == "find_entry":
        f = _svc(E, M, "f_")
        ttl = E.int("ttl", 0, 0xFFFFFF)
        ent = f.create_find_entry(ttl)
        E.observe([ent.service_id, ent.instance_id, ent.major_version, ent.minver_or_counter, ent.ttl])
        E.require(E.And(ent.sd_type == hdr.SOMEIPSDEntryType.FindService, ent.ttl == ttl, ent.service_id == f.service_id, ent.instance_id == f.instance_id, ent.major_version == f.major_version, ent.minver_or_counter == f.minor_version, len(ent.options_1) == 0, len(ent.options_2) == 0), "find entry carries the filter's ids (wildcards preserved) and ttl")
    elif law == "for_service":
        s = _svc(E, M, "s_")
        eg = cfg.Eventgroup(E.int("g_sid", 0, 0xFFFF), E.int("g_iid", 0, 0xFFFF), E.int("g_maj", 0, 0xFF), E.int("g_id", 0, 0xFFFF), ("192.0.2.9", 4000), hdr.L4Protocols.UDP)
        r = eg.for_service(s)
        ok = r is not None
        E.observe(ok)
        acc = eg.as_service().matches_offer(s.create_offer_entry())
        spec = E.And(eg.service_id == s.service_id, E.Or(eg.instance_id == W_I, eg.instance_id == s.instance_id), E.Or(eg.major_version == W_M, eg.major_version == s.major_version))
        E.require(E.Iff(ok, spec), "specialising an eventgroup filter succeeds exactly when the filter accepts the offer")
        E.require(E.Iff(ok, acc), "for_service agrees with matches_offer of the eventgroup's service view")
        if ok:
            E.require(E.And(r.instance_id == s.instance_id, r.major_version == s.major_version, r.service_id == eg.service_id, r.eventgroup_id == eg.eventgroup_id), "the specialised eventgroup adopts the offer's instance id and major version")
            E.require(r.sockname == eg.sockname and r.protocol == eg.protocol, "endpoint data kept")
    elif law == "subscribe_entry":
        v6 = E.flag("v6")
        tcp = E.flag("tcp")
        sockname = ("2001:db8::9", 4000, 0, 0) if v6 else ("192.0.2.9", 4000)
        proto = hdr.L4Protocols.TCP if tcp else hdr.L4Protocols.UDP
        eg = cfg.Eventgroup(E.int("g_sid", 0, 0xFFFF), E.int("g_iid", 0, 0xFFFF), E.int("g_maj", 0, 0xFF), E.int("g_id", 0, 0xFFFF), sockname, proto)
        ttl = E.int("ttl", 0, 0xFFFFFF)
        cnt = E.int("cnt", 0, 15)
        ent = eg.create_subscribe_entry(ttl=ttl, counter=cnt)
        E.observe([ent.service_id, ent.instance_id, ent.major_version, ent.eventgroup_id, ent.eventgroup_counter, ent.ttl])
        E.require(E.And(ent.sd_type == hdr.SOMEIPSDEntryType.Subscribe, ent.service_id == eg.service_id, ent.instance_id == eg.instance_id, ent.major_version == eg.major_version, ent.ttl == ttl, ent.eventgroup_id == eg.eventgroup_id, ent.eventgroup_counter == cnt), "subscribe entry carries ids, ttl, eventgroup id and counter")
        opts = ent.options_1 + ent.options_2
        E.require(len(opts) == 1, "exactly one endpoint option")
        o = opts[0]
        E.require(isinstance(o, hdr.IPv6EndpointOption if v6 else hdr.IPv4EndpointOption), "endpoint option family follows the local address")
        E.require(o.address == ipaddress.ip_address(sockname[0]) and o.port == 4000 and o.l4proto == proto, "endpoint option carries local address, port and protocol")


SCENARIOS = {"H19": h19}

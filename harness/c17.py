"""C17 - event notifications reach exactly the current subscribers, correctly addressed."""
from __future__ import annotations

import ipaddress
import itertools

from oracle import wire
from symx.vloop import Script

from .c07 import mk
from .common import MC, P, RecTransport, loop_clean, new_loop, sd_entries_sent, stub_uniform

PROPERTY = "C17"
BUDGET_S = {"quick": 900, "thorough": 7200}
STUBS = ["VirtualLoop with synchronous numeric getaddrinfo (no executor thread)", "struct/bytes/bytearray lowering", "random.uniform not drawn (zero initial delay) in the SD variant"]
ASSUMPTIONS = [
    "at most one live subscription per endpoint and eventgroup (set semantics of the subscriber table)",
    "a notification request and a change of the subscriber set or of an event value are at least one tick apart (within one tick either state may be used); ties with cyclic rounds are accepted both ways",
    "per-destination session counters are preset to symbolic values 1..0xFFFF so that the wrap is covered without sending 65535 messages",
    "handlers/listeners raise nothing but NakSubscription",
]
REACH = {"H17r": ["h17r.round", "h17r.end"], "H17": ["h17.initial", "h17.round", "h17.refused", "h17.end"], "H17c": ["h17.cyclic", "h17.end"], "H17s": ["h17.ack", "h17.nack", "h17.end"]}
SVC, MAJOR = 0x4321, 2
EPS = {
    "e1": ("v4", "192.0.2.7", 4000),
    "e2": ("v4", "192.0.2.8", 4001),
    "e3": ("v6", "2001:db8::7", 4002),
}
ADDR = {"e1": ("192.0.2.7", 4000), "e2": ("192.0.2.8", 4001), "e3": ("2001:db8::7", 4002, 0, 0)}
SUBSETS = [[1], [2, 3], [1, 2, 3]]


def bounds(tier):
    k = 4 if tier == "thorough" else 3
    return {
        "H17": "non-cyclic eventgroup with 3 events: K<=%d calls from {subscribe(endpoint in 3), unsubscribe(endpoint), unsubscribe of an endpoint that is not subscribed, value update, notify_once(subset in 3), subscription with 0 / 2 endpoints, subscription for an unknown eventgroup}; gaps symbolic 0..50 ms; counters symbolic" % k,
        "H17c": "cyclic eventgroup (1 s): subscribe at a symbolic instant followed by none / unsubscribe / second subscriber / value update / unsubscribe+resubscribe at symbolic instants (0..2500 ms apart), observed 2500 ms beyond",
        "H17r": "races inside one tick: 2..3 settled subscribers, notify_once and - in the same loop iteration or 1..3 iterations later while the round's address look-ups are pending - a subscribe / unsubscribe / bogus unsubscribe / value update / second notify_once",
        "H17s": "through service discovery: Subscribe datagram (1 endpoint / 2 endpoints / undeclared eventgroup, TTL symbolic) to an announced SimpleService, then StopSubscribe",
    }


def _valid(seq):
    subs = set()
    first = None
    for op in seq:
        if op[0] in ("sub", "unsub"):
            if first is None and op[1] != "e1":
                return False
            first = first or op[1]
        if op[0] == "sub":
            if op[1] in subs:
                return False
            subs.add(op[1])
        elif op[0] == "unsub":
            if op[1] not in subs:
                return False
            subs.discard(op[1])
    return True


def cases(tier, seed):
    K = 4 if tier == "thorough" else 3
    ops = [["sub", e] for e in EPS] + [["unsub", e] for e in EPS] + [["update", 1], ["update", 2]] + [["notify", i] for i in range(3)] + [["bad2"], ["bad0"], ["unknown"], ["unsub_x"]]
    out = []
    for k in range(1, K + 1):
        for combo in itertools.product(ops, repeat=k):
            if not _valid(combo):
                continue
            if k == K and not any(o[0] in ("notify", "sub") for o in combo):
                continue
            if tier == "quick" and k == K and sum(1 for o in combo if o[0] in ("bad2", "bad0", "unknown", "update", "unsub_x")) > 1:
                continue
            out.append({"h": "H17", "ops": [list(o) for o in combo], "_w": k})
    for scen in ("none", "unsub", "sub2", "update", "unsub-resub"):
        out.append({"h": "H17c", "scen": scen, "_w": 5})
    for kind in ("one", "two", "undeclared", "v6"):
        out.append({"h": "H17s", "kind": kind, "_w": 2})
    for nsubs in (2, 3):
        for change in ("sub", "unsub", "unsub_x", "update", "notify"):
            if nsubs == 3 and change == "sub":
                continue
            out.append({"h": "H17r", "nsubs": nsubs, "change": change, "_w": 3})
    return out


def _mkservice(E, M, loop, interval=None, three=False):
    class Svc(M.service.SimpleService):
        service_id = SVC
        version_major = MAJOR
        version_minor = 1

    svc = loop.call(Svc, 9)
    tr = RecTransport(loop, sockname=("192.0.2.100", 30509))
    svc.transport = tr
    evg = loop.call(M.service.SimpleEventgroup, svc, 5, interval)
    svc.register_eventgroup(evg)
    evg.values[1] = b"\x01"
    evg.values[2] = b"\x02\x02"
    if three:
        evg.values[3] = b"\x03\x03\x03"
    return svc, evg, tr


def _ep(M, name):
    fam, host, port = EPS[name]
    hdr = M.header
    if fam == "v4":
        return hdr.IPv4EndpointOption(ipaddress.IPv4Address(host), hdr.L4Protocols.UDP, port)
    return hdr.IPv6EndpointOption(ipaddress.IPv6Address(host), hdr.L4Protocols.UDP, port)


def _subscription(M, eps, eg=5):
    return M.sd.EventgroupSubscription(service_id=SVC, instance_id=9, major_version=MAJOR, id=eg, counter=0, ttl=3, endpoints=frozenset(eps))


def _check_stream(E, tr, counters, expected, values_at):
    """expected: list of dict(t, addr, ids, vals=[alternatives of {id: bytes}]) in model order"""
    obs = []
    for (ts, data, addr) in tr.sent:
        obs.append({"t": ts, "to": addr, "msgs": wire.parse_someip_all(data)})
    E.observe([[o["t"], str(o["to"]), [[m["method"], m["session"], bytes(m["payload"]).hex() if all(isinstance(x, int) for x in m["payload"]) else "sym"] for m in o["msgs"]]] for o in obs])
    E.require(len(obs) == len(expected), "exactly the expected notification datagrams are sent: one per current subscriber and round, one initial per new subscriber, nothing when there are none", {"sent": [[str(o["to"]), [m["method"] for m in o["msgs"]]] for o in obs], "expected": [[str(x["addr"]), x["ids"]] for x in expected]})
    unmatched = list(obs)
    for x in expected:
        cand = [o for o in unmatched if o["to"] == x["addr"] and [m["method"] for m in o["msgs"]] == [0x8000 | i for i in x["ids"]]]
        E.require(bool(cand), "a notification round reaches every endpoint subscribed at that time with the requested events", {"missing": [str(x["addr"]), x["ids"]]})
        if not cand:
            continue
        o = cand[0]
        unmatched.remove(o)
        E.require(o["t"] == x["t"], "the notification leaves at the instant of the round / subscription")
        for m, i in zip(o["msgs"], x["ids"]):
            E.require(m["service"] == SVC and m["iface"] == MAJOR and m["mtype"] == 2 and m["rcode"] == 0 and m["client"] == 0 and m["proto"] == 1, "notification header: service id, interface version = major version, type NOTIFICATION")
            E.require(any(bytes(m["payload"]) == v[i] for v in x["vals"]), "payload is the event's current value", {"event": i, "payload": bytes(m["payload"]).hex()})
    # per-destination session ids in transmission order
    for o in obs:
        for m in o["msgs"]:
            c = counters.get(o["to"], 1)
            E.require(m["session"] == c, "per-destination session id counts up from its start value and skips 0", {"to": str(o["to"])})
            E.require(m["session"] != 0, "session id 0 is never used")
            counters[o["to"]] = E.ite(c >= 0xFFFF, 1, c + 1)


def h17(E, M, case):
    loop = new_loop(E)
    svc, evg, tr = _mkservice(E, M, loop, three=True)
    counters = {}
    for j, (name, a) in enumerate(sorted(ADDR.items())):
        counters[a] = E.int("cnt_%s" % name, 1, 0xFFFF)
        svc.session_storage.outgoing[a] = (True, counters[a])
    values = {1: b"\x01", 2: b"\x02\x02", 3: b"\x03\x03\x03"}
    subs = []
    expected = []
    refused = []
    sc = Script(loop, E)
    t = 0
    prev_kind = None
    nupd = 0

    def conflicting(a, b):
        change = ("sub", "unsub", "update", "unsub_x")
        return (a in change and b == "notify") or (a == "notify" and b in change) or (a == "update" and b == "sub") or (a == "sub" and b == "update")

    same_tick = []  # kinds of the earlier calls that may share the tick of the next one
    for i, op in enumerate(case["ops"]):
        lo = 1 if any(conflicting(k, op[0]) for k in same_tick) else 0
        t = t + E.int("dt%d" % i, lo, 50)
        kind = op[0]
        same_tick = [kind] if lo else same_tick + [kind]
        prev_kind = kind
        if kind == "sub":
            ep = _ep(M, op[1])
            sc.at(t, lambda ep=ep: svc.client_subscribed(_subscription(M, [ep]), P), "op%d" % i, joinable=False)
            subs.append(op[1])
            expected.append({"t": t, "addr": ADDR[op[1]], "ids": [1, 2, 3], "vals": [dict(values)]})
        elif kind == "unsub":
            ep = _ep(M, op[1])
            sc.at(t, lambda ep=ep: svc.client_unsubscribed(_subscription(M, [ep]), P), "op%d" % i, joinable=False)
            subs.remove(op[1])
        elif kind == "unsub_x":
            # StopSubscribe / expiry for an endpoint that is not subscribed (never was, or
            # already gone): must not disturb the others
            other = ([n for n in sorted(EPS) if n not in subs] + [None])[0]
            ep = _ep(M, other) if other else M.header.IPv4EndpointOption(ipaddress.IPv4Address("192.0.2.99"), M.header.L4Protocols.UDP, 4999)
            sc.at(t, lambda ep=ep: svc.client_unsubscribed(_subscription(M, [ep]), P), "op%d" % i, joinable=False)
        elif kind == "update":
            nupd += 1
            newv = bytes([0xA0 + nupd]) * (op[1] + nupd % 2)
            sc.at(t, lambda k=op[1], v=newv: evg.values.__setitem__(k, v), "op%d" % i, joinable=False)
            values[op[1]] = newv
        elif kind == "notify":
            ids = SUBSETS[op[1]]
            sc.at(t, lambda ids=ids: evg.notify_once(list(ids)), "op%d" % i, joinable=False)
            for name in subs:
                expected.append({"t": t, "addr": ADDR[name], "ids": list(ids), "vals": [dict(values)]})
        else:
            if kind == "bad2":
                s = _subscription(M, [_ep(M, "e1"), _ep(M, "e2")])
            elif kind == "bad0":
                s = _subscription(M, [])
            else:
                s = _subscription(M, [_ep(M, "e2")], eg=0x77)

            def cb(s=s, kind=kind):
                try:
                    svc.client_subscribed(s, P)
                    refused.append((kind, "accepted"))
                except M.sd.NakSubscription:
                    refused.append((kind, "refused"))
                except Exception as exc:  # noqa: BLE001
                    refused.append((kind, repr(exc)))

            sc.at(t, cb, "op%d" % i, joinable=False)
    sc.flush()
    loop.settle(t + 100)
    loop_clean(E, loop)
    E.reach("h17.end")
    for kind, res in refused:
        E.reach("h17.refused")
        E.require(res == "refused", "a subscription naming other than exactly one endpoint, or an unknown eventgroup, is refused", {"kind": kind, "result": res})
    if any(x for x in expected):
        E.reach("h17.round" if any(op[0] == "notify" for op in case["ops"]) else "h17.initial")
    if any(op[0] == "sub" for op in case["ops"]):
        E.reach("h17.initial")
    _check_stream(E, tr, counters, expected, values)
    want = sorted(ADDR[n] for n in subs)
    have = sorted(ADDR[[k for k, v in EPS.items() if v[2] == int(o.port)][0]] for o in evg.subscribed_endpoints)
    E.require(want == have, "the subscriber table holds exactly the current subscribers")


def h17r(E, M, case):
    """a change of the subscriber set (or value) while a notification round is in flight"""
    loop = new_loop(E)
    svc, evg, tr = _mkservice(E, M, loop)
    names = ["e1", "e2", "e3"][: case["nsubs"]]
    for n in names:
        loop.deliver(1, lambda n=n: svc.client_subscribed(_subscription(M, [_ep(M, n)]), P), may_defer=False)
    loop.settle(5)
    n0 = len(tr.sent)
    change = case["change"]
    touched = None
    newv = b"\xcc\xcc\xcc"

    def second():
        if change == "sub":
            svc.client_subscribed(_subscription(M, [_ep(M, "e3")]), P)
        elif change == "unsub":
            svc.client_unsubscribed(_subscription(M, [_ep(M, names[-1])]), P)
        elif change == "unsub_x":
            svc.client_unsubscribed(_subscription(M, [M.header.IPv4EndpointOption(ipaddress.IPv4Address("192.0.2.99"), M.header.L4Protocols.UDP, 4999)]), P)
        elif change == "update":
            evg.values[1] = newv
        else:
            evg.notify_once([2])

    if change == "sub":
        touched = "e3"
    elif change == "unsub":
        touched = names[-1]
    sc = Script(loop, E)
    sc.at(10, lambda: evg.notify_once([1]), "notify", joinable=False)
    sc.at(10, second, "second")  # same batch, or up to three iterations later (defer choices)
    sc.flush()
    loop.settle(20)
    loop_clean(E, loop)
    E.reach("h17r.end")
    obs = [{"t": ts, "to": addr, "msgs": wire.parse_someip_all(data)} for (ts, data, addr) in tr.sent[n0:]]
    E.observe([[str(o["to"]), [[m["method"], m["session"]] for m in o["msgs"]]] for o in obs])
    for n in ["e1", "e2", "e3"]:
        mine = [o for o in obs if o["to"] == ADDR[n]]
        rounds1 = [o for o in mine if [m["method"] for m in o["msgs"]] == [0x8001]]
        rounds2 = [o for o in mine if [m["method"] for m in o["msgs"]] == [0x8002]]
        initial = [o for o in mine if [m["method"] for m in o["msgs"]] == [0x8001, 0x8002]]
        E.require(len(rounds1) + len(rounds2) + len(initial) == len(mine), "only round and initial notifications are sent")
        stable = n in names and n != touched
        if stable:
            E.reach("h17r.round")
            E.require(len(rounds1) == 1, "every endpoint that stays subscribed throughout a notification round receives it exactly once, whatever else happens meanwhile", {"endpoint": n, "got": len(rounds1), "change": change})
            if change == "notify":
                E.require(len(rounds2) == 1, "a second round requested meanwhile reaches it as well", {"endpoint": n, "got": len(rounds2)})
        elif n == touched:
            E.require(len(rounds1) <= 1, "an endpoint joining or leaving during a round receives it at most once")
            if change == "sub":
                E.require(len(initial) == 1, "the new subscriber still gets its initial notification")
        else:
            E.require(not mine, "nothing goes to an endpoint that never subscribed")
        # payload and counters
        base = 3  # two initial messages were sent before
        seq = [m["session"] for o in mine for m in o["msgs"]]
        start = 3 if n in names else 1
        E.require(seq == list(range(start, start + len(seq))), "per-destination session ids stay consecutive", {"endpoint": n, "sessions": seq})
        for o in rounds1:
            v = bytes(o["msgs"][0]["payload"])
            E.require(v == b"\x01" or (change == "update" and v == newv), "the round carries the event's value (old or new when updated within the same tick)")


def h17c(E, M, case):
    loop = new_loop(E)
    svc, evg, tr = _mkservice(E, M, loop, interval=1)
    counters = {}
    values = {1: b"\x01", 2: b"\x02\x02"}
    scen = case["scen"]
    sc = Script(loop, E)
    t1 = E.int("t1", 0, 1500)
    e1, e2 = _ep(M, "e1"), _ep(M, "e2")
    sc.at(t1, lambda: svc.client_subscribed(_subscription(M, [e1]), P), "sub1", joinable=False)
    t2 = t1 + E.int("dt2", 1, 2500)
    t3 = None
    newv = b"\xbb"
    if scen == "unsub":
        sc.at(t2, lambda: svc.client_unsubscribed(_subscription(M, [e1]), P), "e2", joinable=False)
    elif scen == "sub2":
        sc.at(t2, lambda: svc.client_subscribed(_subscription(M, [e2]), P), "e2", joinable=False)
    elif scen == "update":
        sc.at(t2, lambda: evg.values.__setitem__(1, newv), "e2", joinable=False)
    elif scen == "unsub-resub":
        sc.at(t2, lambda: svc.client_unsubscribed(_subscription(M, [e1]), P), "e2", joinable=False)
        t3 = t2 + E.int("dt3", 1, 1500)
        sc.at(t3, lambda: svc.client_subscribed(_subscription(M, [e1]), P), "e3", joinable=False)
    sc.flush()
    t_last = t3 if t3 is not None else (t2 if scen != "none" else t1)
    H = t_last + 2500
    loop.settle(H)
    loop_clean(E, loop)
    E.reach("h17.end")
    obs = [{"t": ts, "to": addr, "msgs": wire.parse_someip_all(data)} for (ts, data, addr) in tr.sent]
    E.observe([[o["t"], str(o["to"]), [m["method"] for m in o["msgs"]]] for o in obs])
    a1, a2 = ADDR["e1"], ADDR["e2"]
    for o in obs:
        E.require(o["to"] in (a1, a2), "notifications go to subscribed endpoints only")
        E.require([m["method"] for m in o["msgs"]] == [0x8001, 0x8002], "initial and cyclic notifications carry every event of the group")
        for m in o["msgs"]:
            E.require(m["service"] == SVC and m["iface"] == MAJOR and m["mtype"] == 2 and m["rcode"] == 0, "notification header")
    # subscriber intervals per endpoint: [(from, to or None)]
    iv = {a1: [[t1, None]], a2: []}
    if scen == "unsub":
        iv[a1][0][1] = t2
    elif scen == "sub2":
        iv[a2].append([t2, None])
    elif scen == "unsub-resub":
        iv[a1][0][1] = t2
        iv[a1].append([t3, None])
    for a in (a1, a2):
        mine = [o for o in obs if o["to"] == a]
        # session ids consecutive from 1
        n = 1
        for o in mine:
            for m in o["msgs"]:
                E.require(m["session"] == n, "per-destination session id counts up from 1")
                n += 1
        # every datagram lies inside a subscription interval (ties accepted), the first one
        # of each interval is the initial notification at its start
        for o in mine:
            inside = E.Or(*[E.And(o["t"] >= lo, True if hi is None else o["t"] <= hi) for lo, hi in iv[a]]) if iv[a] else False
            E.require(inside, "nothing is sent to an endpoint that is not subscribed at that time", {"to": str(a)})
        for lo, hi in iv[a]:
            E.require(E.Or(*[o["t"] == lo for o in mine]) if mine else False, "a newly accepted subscriber is sent one initial notification")
        # while subscribed, consecutive notifications are at most one interval apart and the
        # stream continues up to the horizon
        for lo, hi in iv[a]:
            end = hi if hi is not None else H
            inside = [o for o in mine]
            for x, y in zip(inside, inside[1:]):
                both = E.And(x["t"] >= lo, y["t"] <= end)
                E.require(E.Implies(both, y["t"] - x["t"] <= 1000), "cyclic rounds reach a subscribed endpoint at least once per interval")
                E.reach("h17.cyclic")
            if inside:
                # some datagram lies in the last interval-length before `end`
                cond = E.Or(*[E.And(o["t"] <= end, o["t"] >= lo, o["t"] > end - 1001) for o in inside])
                E.require(cond, "cyclic rounds continue until the endpoint unsubscribes (or the horizon)")
    if scen == "update":
        for o in obs:
            v = bytes(o["msgs"][0]["payload"])
            E.require(E.Implies(o["t"] > t2, v == newv), "rounds after a value update carry the new value")
            E.require(E.Implies(o["t"] < t2, v == b"\x01"), "rounds before it carry the old value")


def h17s(E, M, case):
    loop = new_loop(E)
    sd = M.sd
    stub_uniform(E, M)
    svc, evg, tr = _mkservice(E, M, loop)
    tm = sd.Timings(INITIAL_DELAY_MIN=0, INITIAL_DELAY_MAX=0, REPETITIONS_MAX=0, CYCLIC_OFFER_DELAY=0, SEND_COLLECTION_TIMEOUT=0, ANNOUNCE_TTL=0xFFFFFF)
    prot = sd.ServiceDiscoveryProtocol(MC, timings=tm)
    str_ = RecTransport(loop)
    prot.transport = str_
    loop.call(svc.start_announce, prot.announcer)
    loop.call(prot.announcer.start)
    loop.settle(5)
    kind = case["kind"]
    opts = [wire.sd_option_bytes(wire.OPT_V4_ENDPOINT, wire.ip_option_data([192, 0, 2, 7], 17, 4000))]
    if kind == "two":
        opts.append(wire.sd_option_bytes(wire.OPT_V4_ENDPOINT, wire.ip_option_data([192, 0, 2, 8], 17, 4001)))
    if kind == "v6":
        opts = [wire.sd_option_bytes(wire.OPT_V6_ENDPOINT, wire.ip_option_data(list(ipaddress.IPv6Address("2001:db8::7").packed), 17, 4002))]
    eg = 0x66 if kind == "undeclared" else 5
    ttl = E.int("ttl", 1, 0xFFFFFF)
    ent = wire.sd_entry_bytes(wire.T_SUBSCRIBE, 0, 0, len(opts), 0, SVC, 9, MAJOR, ttl, wire.eventgroup_word(0, eg))
    n0 = len(str_.sent)
    loop.deliver(10, lambda: prot.datagram_received(mk(E, wire.sd_message(1, 0xC0, [ent], opts)), P, False), may_defer=False)
    loop.settle(20)
    acks = [x for x in sd_entries_sent(str_.sent[n0:]) if x["e"]["type"] == wire.T_SUBSCRIBE_ACK]
    E.observe([[x["e"]["ttl"]] for x in acks])
    E.require(len(acks) == 1 and acks[0]["to"] == P, "one SubscribeAck to the subscriber")
    ok = kind in ("one", "v6")
    if ok:
        E.reach("h17.ack")
        E.require(acks[0]["e"]["ttl"] == ttl, "a subscription with exactly one endpoint to a declared eventgroup is accepted")
        addr = ADDR["e3"] if kind == "v6" else ADDR["e1"]
        obs = [(ts, a, wire.parse_someip_all(d)) for (ts, d, a) in tr.sent]
        E.require(len(obs) == 1 and obs[0][1] == addr and [m["method"] for m in obs[0][2]] == [0x8001, 0x8002], "the new subscriber is sent one initial notification per event at its endpoint")
        for m, v in zip(obs[0][2] if obs else [], (b"\x01", b"\x02\x02")):
            E.require(bytes(m["payload"]) == v and m["session"] != 0, "initial notifications carry the current values")
    else:
        E.reach("h17.nack")
        E.require(acks[0]["e"]["ttl"] == 0, "a subscription naming two endpoints, or an undeclared eventgroup, is refused (negative acknowledgement)")
        E.require(not tr.sent, "a refused subscriber is sent nothing")
        E.require(not evg.subscribed_endpoints, "a refused subscription is not recorded")
    # StopSubscribe removes it again
    ent0 = wire.sd_entry_bytes(wire.T_SUBSCRIBE, 0, 0, len(opts), 0, SVC, 9, MAJOR, 0, wire.eventgroup_word(0, eg))
    loop.deliver(30, lambda: prot.datagram_received(bytes(wire.sd_message(2, 0xC0, [ent0], opts)), P, False), may_defer=False)
    loop.settle(40)
    loop_clean(E, loop)
    E.reach("h17.end")
    E.require(not evg.subscribed_endpoints, "after StopSubscribe nobody is subscribed")


SCENARIOS = {"H17": h17, "H17c": h17c, "H17s": h17s, "H17r": h17r}

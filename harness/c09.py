"""C09 - TTL expiry fires exactly once, on time, never early; a refresh postpones it."""
from __future__ import annotations

import itertools

from oracle import wire
from oracle.model_ttl import TTLModel, match

from .c07 import mk
from symx.vloop import Script

from .common import MC, P, Q, TTL_FOREVER, RecTransport, loop_clean, new_loop

PROPERTY = "C09"
BUDGET_S = {"quick": 900, "thorough": 7200}
STUBS = ["event loop: VirtualLoop - time is a symbolic integer tick (1 ms); external operations are injected as the I/O batch of a solver-chosen iteration (before the timers due at that tick, or after 1..3 further iterations while work is pending)"]
ASSUMPTIONS = [
    "ticks of 1 ms: a refresh closer to the deadline than one tick is 'simultaneous' (tie rule: 'stopped then present again' or 'no notification')",
    "histories of at most K operations from the empty store; gaps between operations 0..2^40 ticks (the clock runs far past 0xFFFFFF s)",
    "H09b: offers reach ServiceDiscover through real datagrams (the TTL bytes are symbolic), one watch-all listener",
]
REACH = {"H09a": ["h09.expired", "h09.tie", "h09.end"], "H09b": ["h09.expired", "h09.end"]}
KEYS = [("A", "k1"), ("A", "k2"), ("B", "k1"), ("B", "k2")]
ADDR = {"A": P, "B": Q}


def bounds(tier):
    k = 4 if tier == "thorough" else 3
    return {
        "H09a": "TimedStore driven directly: K<=%d operations from {refresh(key, ttl finite symbolic 1..0xFFFFFE | infinite), stop(key), stop_all_for_address, stop_all} over 2 addresses x 2 keys; gaps symbolic 0..2^40 ticks; delivery iteration symbolic" % k,
        "H09b": "ServiceDiscover through datagrams: K<=%d of {Offer(service in 2, source in 2, ttl symbolic 1..0xFFFFFF incl. infinite), StopOffer, connection_lost}; same timing" % (3 if tier == "thorough" else 2),
    }


def _ops():
    ops = []
    for k in range(4):
        ops.append(["refresh", k, "fin"])
        ops.append(["refresh", k, "inf"])
        ops.append(["stop", k])
    ops.append(["stop_addr", "A"])
    ops.append(["stop_addr", "B"])
    ops.append(["stop_all"])
    return ops


def _canon(seq):
    """symmetry reduction: relabel addresses/keys in order of first appearance"""
    amap, kmap = {}, {}
    out = []
    for op in seq:
        if op[0] in ("refresh", "stop"):
            a, k = KEYS[op[1]]
            if a not in amap:
                amap[a] = "AB"[len(amap)]
            if k not in kmap:
                kmap[k] = ["k1", "k2"][len(kmap)]
            a2, k2 = amap[a], kmap[k]
            out.append([op[0], KEYS.index((a2, k2))] + op[2:])
        elif op[0] == "stop_addr":
            if op[1] not in amap:
                amap[op[1]] = "AB"[len(amap)]
            out.append(["stop_addr", amap[op[1]]])
        else:
            out.append(op)
    return out


def cases(tier, seed):
    K = 4 if tier == "thorough" else 3
    ops = _ops()
    seen = set()
    out = []
    for k in range(1, K + 1):
        for combo in itertools.product(ops, repeat=k):
            if combo[0][0] != "refresh":
                continue  # operations on an empty store are covered as later steps
            c = _canon(list(combo))
            key = repr(c)
            if key in seen:
                continue
            seen.add(key)
            out.append({"h": "H09a", "ops": c, "_w": k})
    Kb = 3 if tier == "thorough" else 2
    evs = [["offer", s, a] for s in range(2) for a in "AB"] + [["stopoffer", s, a] for s in range(2) for a in "AB"] + [["lost"]]
    seen = set()
    for k in range(1, Kb + 1):
        for combo in itertools.product(evs, repeat=k):
            if combo[0][0] != "offer" or combo[0][1:] != [0, "A"]:
                continue
            out.append({"h": "H09b", "evs": [list(x) for x in combo], "_w": k})
    return out


def _check_streams(E, model, log):
    model.finish()
    keys = set(model.streams) | set(log)
    for key in sorted(keys):
        actual = log.get(key, [])
        stream = model.streams.get(key, [])
        if any(it[0] == "tie" for it in stream):
            E.reach("h09.tie")
        if any(a[0] == "stopped" for a in actual):
            E.reach("h09.expired")
        E.observe([list(key) if isinstance(key, tuple) else key, [[a[0], a[1]] for a in actual]])
        E.require(
            match(E, actual, stream),
            "each entry is reported new/stopped exactly as the TTL model says (once, at last refresh + ttl, never after removal, never for the infinite TTL)",
            lambda: {"key": repr(key), "actual": [[a[0], a[1]] for a in actual], "expected": [list(x) for x in stream]},
        )


def h09a(E, M, case):
    loop = new_loop(E)
    import logging

    store = M.sd.TimedStore(logging.getLogger("someip.verif"))
    log = {}
    model = TTLModel(TTL_FOREVER)

    def cb_new(entry, addr):
        log.setdefault((addr, entry), []).append(("new", loop.time()))

    def cb_exp(entry, addr):
        log.setdefault((addr, entry), []).append(("stopped", loop.time()))

    t = 0
    sc = Script(loop, E)
    for i, op in enumerate(case["ops"]):
        t = t + E.int("dt%d" % i, 0, 2**40)
        if op[0] == "refresh":
            a, k = KEYS[op[1]]
            ttl = TTL_FOREVER if op[2] == "inf" else E.int("ttl%d" % i, 1, 0xFFFFFE)
            sc.at(t, lambda a=a, k=k, ttl=ttl: store.refresh(ttl, ADDR[a], k, cb_new, cb_exp), "op%d" % i)
            model.refresh(t, (ADDR[a], k), ttl)
        elif op[0] == "stop":
            a, k = KEYS[op[1]]
            sc.at(t, lambda a=a, k=k: store.stop(ADDR[a], k), "op%d" % i)
            model.stop(t, [(ADDR[a], k)])
        elif op[0] == "stop_addr":
            sc.at(t, lambda a=op[1]: store.stop_all_for_address(ADDR[a]), "op%d" % i)
            model.stop(t, [key for key in list(model.live) if key[0] == ADDR[op[1]]])
        else:
            sc.at(t, store.stop_all, "op%d" % i)
            model.stop(t, list(model.live))
    sc.finish()
    loop_clean(E, loop)
    E.reach("h09.end")
    _check_streams(E, model, log)
    left = [(a, k) for a, d in store.store.items() for k in d if not model.is_live((a, k))]
    E.require(not left, "the store holds no entry the model considers gone")


def h09b(E, M, case):
    loop = new_loop(E)
    hdr, cfg = M.header, M.config
    prot = M.sd.ServiceDiscoveryProtocol(MC)
    prot.transport = RecTransport(loop)
    log = {}
    model = TTLModel(TTL_FOREVER)

    class L(M.sd.ClientServiceListener):
        def service_offered(self, service, source):
            log.setdefault((source, service.service_id), []).append(("new", loop.time()))

        def service_stopped(self, service, source):
            log.setdefault((source, service.service_id), []).append(("stopped", loop.time()))

    prot.discovery.watch_all_services(L())
    sess = {"A": 0, "B": 0}
    t = 0
    sc = Script(loop, E)
    for i, ev in enumerate(case["evs"]):
        t = t + E.int("dt%d" % i, 0, 2**40)
        if ev[0] == "lost":
            sc.at(t, lambda: prot.connection_lost(None), "ev%d" % i)
            model.stop(t, list(model.live))
            continue
        s, a = ev[1], ev[2]
        sid = 0x1000 + s
        ttl = 0 if ev[0] == "stopoffer" else E.int("ttl%d" % i, 1, 0xFFFFFF)
        sess[a] += 1
        entry = wire.sd_entry_bytes(wire.T_OFFER, 0, 0, 0, 0, sid, 1, 1, ttl, 0)
        data = mk(E, wire.sd_message(sess[a], 0xC0, [entry], []))
        sc.at(t, lambda d=data, a=a: prot.datagram_received(d, ADDR[a], False), "ev%d" % i)
        if ev[0] == "offer":
            model.refresh(t, (ADDR[a], sid), ttl)
        else:
            model.stop(t, [(ADDR[a], sid)])
    sc.finish()
    loop_clean(E, loop)
    E.reach("h09.end")
    _check_streams(E, model, log)


SCENARIOS = {"H09a": h09a, "H09b": h09b}

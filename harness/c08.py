"""C08 - outgoing session ids count 1..0xFFFF per destination; reboot flag clears on wrap."""
from __future__ import annotations

import ipaddress
import itertools

from oracle import wire

from .common import MC, P, Q, RecTransport, loop_clean, new_loop

PROPERTY = "C08"
BUDGET_S = {"quick": 600, "thorough": 1800}
STUBS = ["struct/bytes lowering", "VirtualLoop + synchronous numeric getaddrinfo (H08c)"]
ASSUMPTIONS = [
    "H08a proves the step function for every counter value 1..0xFFFF and both flag values: with the initial state (True, 1) this is, by induction, the whole 2 x 65535 cycle",
    "threads contending for outgoing_lock are outside the model (single event-loop thread)",
]
REACH = {"H08a": ["h08a.wrap", "h08a.nowrap"], "H08b": ["h08b.sent", "h08b.empty"], "H08c": ["h08c.sent", "h08c.churn"]}
DESTS = [None, P, Q]
FRESH = ("192.0.2.9", 30490)  # never preset: starts from the default state (True, 1)


def bounds(tier):
    k = 6 if tier == "thorough" else 4
    return {
        "H08a": "one assign_outgoing step: destination in {multicast(None), P, Q, fresh}, state (flag, id) with id 1..0xFFFF symbolic, two foreign destinations with symbolic state",
        "H08b": "K<=%d send_sd calls (all sequences up to 3 (thorough 4), sequences of the maximal length over at most two destinations), destination per call from {multicast, P, Q (counters preset to symbolic (flag, id)), a fresh peer (default state)}, empty/non-empty per call; datagrams decoded by the independent reader" % k,
        "H08c": "SimpleEventgroup notifications to 2 subscribers (IPv4, IPv6), %d rounds of 1..3 events, per-destination counters preset symbolic; plus subscriber churn before the last round (the only subscriber of a second eventgroup leaves / both subscribers leave and return)" % (3 if tier == "thorough" else 2),
    }


def cases(tier, seed):
    out = [{"h": "H08a"}]
    K = 6 if tier == "thorough" else 4
    # destination/emptiness per call: alphabet of 6; all sequences up to K would be 6^K:
    # destinations exhaustively, emptiness symbolic (forked inside)
    for k in range(1, K + 1):
        for combo in itertools.product(range(4), repeat=k):
            if k == K and (combo.count(3) > 1 or len(set(combo)) > 2):
                continue
            if k == K or k <= (4 if tier == "thorough" else 3):
                out.append({"h": "H08b", "dests": list(combo)})
    R = 3 if tier == "thorough" else 2
    for combo in itertools.product((1, 2, 3), repeat=R):
        out.append({"h": "H08c", "rounds": list(combo)})
    # subscriber churn before the last round: the only subscriber of a second eventgroup leaves /
    # one of the two subscribers leaves and comes back: counters of the destinations persist
    for churn in (1, 2):
        for last in (1, 3):
            out.append({"h": "H08c", "rounds": [2] * (R - 1) + [last], "churn": churn})
    return out


def step_model(E, flag, cur):
    """expected next state"""
    wrap = cur >= 0xFFFF
    return E.And(flag, E.Not(wrap)), E.ite(wrap, 1, cur + 1)


def h08a(E, M, case):
    st = M.sd._SessionStorage()
    which = E.choice("dest", 4)
    fresh = which == 3
    dest = ("192.0.2.9", 1) if fresh else DESTS[which]
    foreign = {}
    for j, d in enumerate(DESTS):
        if d == dest:
            continue
        foreign[d] = (E.bool("f_flag%d" % j), E.int("f_id%d" % j, 1, 0xFFFF))
        st.outgoing[d] = foreign[d]
    if fresh:
        flag, cur = True, 1
    else:
        flag, cur = E.bool("flag"), E.int("id", 1, 0xFFFF)
        st.outgoing[dest] = (flag, cur)
    rf, rid = st.assign_outgoing(dest)
    E.observe(["ret", rf, rid])
    E.require(E.And(E.eq(rf, flag), rid == cur), "the current (flag, id) of the destination is handed out")
    nf, nid = st.outgoing[dest]
    E.observe(["next", nf, nid])
    xf, xid = step_model(E, flag, cur)
    E.require(nid == xid, "next id is id+1, or 1 after 0xFFFF")
    E.require(E.eq(nf, xf), "flag is kept until the wrap and cleared by it")
    E.require(E.And(nid >= 1, nid <= 0xFFFF), "invariant 1 <= id <= 0xFFFF is preserved (never 0)")
    if E.is_feasible(cur == 0xFFFF):
        E.reach("h08a.wrap")
    if E.is_feasible(cur < 0xFFFF):
        E.reach("h08a.nowrap")
    for d, (ff, fid) in foreign.items():
        g = st.outgoing[d]
        E.require(E.And(E.eq(g[0], ff), g[1] == fid), "other destinations untouched")
    E.require(len(st.outgoing) == 3 + (1 if fresh else 0), "no other destination appears")


def h08b(E, M, case):
    prot = M.sd.ServiceDiscoveryProtocol(MC)
    tr = RecTransport()
    prot.transport = tr
    model = {}
    for j, d in enumerate(DESTS):
        model[d] = (E.bool("flag%d" % j), E.int("id%d" % j, 1, 0xFFFF))
        prot.session_storage.outgoing[d] = model[d]
    svc = M.config.Service(0x1234, 1, 1, 0)
    model[FRESH] = (True, 1)
    for i, di in enumerate(case["dests"]):
        dest = (DESTS + [FRESH])[di]
        empty = E.flag("empty%d" % i)
        n0 = len(tr.sent)
        prot.send_sd([] if empty else [svc.create_offer_entry(3)], remote=dest)
        new = tr.sent[n0:]
        if empty:
            E.reach("h08b.empty")
            E.require(len(new) == 0, "an SD message without entries is not transmitted")
        else:
            E.reach("h08b.sent")
            E.require(len(new) == 1, "one datagram per send_sd")
            if len(new) == 1:
                _, data, addr = new[0]
                E.require(addr == (dest if dest is not None else MC), "datagram goes to the requested destination")
                msgs = wire.parse_someip_all(data)
                E.require(len(msgs) == 1, "one SOME/IP message")
                sd = wire.parse_sd(msgs[0]["payload"])
                mf, mid = model[dest]
                E.observe([i, msgs[0]["session"], sd["reboot"]])
                E.require(msgs[0]["session"] == mid, "session id is the destination's next id", {"step": i})
                E.require(E.Iff(sd["reboot"] == 1, mf), "reboot flag set exactly before the destination's first wrap", {"step": i})
                E.require(E.And(msgs[0]["session"] >= 1, msgs[0]["session"] <= 0xFFFF), "session id never 0")
                model[dest] = step_model(E, mf, mid)
        for d in DESTS + ([FRESH] if FRESH in prot.session_storage.outgoing else []):
            g = prot.session_storage.outgoing[d]
            E.require(E.And(E.eq(g[0], model[d][0]), g[1] == model[d][1]), "counters advance only for the destination sent to (empty sends consume nothing)", {"step": i})


def h08c(E, M, case):
    loop = new_loop(E)

    class Svc(M.service.SimpleService):
        service_id = 0x4321
        version_major = 2
        version_minor = 0

    svc = loop.call(Svc, 7)
    tr = RecTransport(loop)
    svc.transport = tr
    evg = loop.call(M.service.SimpleEventgroup, svc, 5)
    svc.register_eventgroup(evg)
    evg.values[1] = b"a"
    evg.values[2] = b"bc"
    evg.values[3] = b"def"
    eps = [
        M.header.IPv4EndpointOption(ipaddress.IPv4Address("192.0.2.7"), M.header.L4Protocols.UDP, 4000),
        M.header.IPv6EndpointOption(ipaddress.IPv6Address("2001:db8::7"), M.header.L4Protocols.UDP, 4001),
    ]
    addrs = [("192.0.2.7", 4000), ("2001:db8::7", 4001, 0, 0)]
    model = {}
    for j, a in enumerate(addrs):
        model[a] = E.int("cnt%d" % j, 1, 0xFFFF)
        svc.session_storage.outgoing[a] = (True, model[a])
    for ep in eps:
        evg.subscribed_endpoints.add(ep)
    evg.has_clients.set()
    t = 0
    churn = case.get("churn", 0)
    if churn == 1:
        evg2 = loop.call(M.service.SimpleEventgroup, svc, 6)
        svc.register_eventgroup(evg2)
        epc = M.header.IPv4EndpointOption(ipaddress.IPv4Address("192.0.2.8"), M.header.L4Protocols.UDP, 4002)
        evg2.subscribed_endpoints.add(epc)
        evg2.has_clients.set()
    for r, nev in enumerate(case["rounds"]):
        if churn and r == len(case["rounds"]) - 1:
            if churn == 1:
                loop.deliver(t + 50, lambda: evg2.unsubscribe(epc), may_defer=False)
            else:
                def leave_and_return():
                    evg.unsubscribe(eps[0])
                    evg.unsubscribe(eps[1])
                    evg.subscribed_endpoints.add(eps[0])
                    evg.subscribed_endpoints.add(eps[1])
                    evg.has_clients.set()
                loop.deliver(t + 50, leave_and_return, may_defer=False)
            loop.settle()
            E.reach("h08c.churn")
        t += 100
        n0 = len(tr.sent)
        events = [1, 2, 3][:nev]
        loop.deliver(t, lambda ev=events: evg.notify_once(ev), may_defer=False)
        loop.settle()
        new = tr.sent[n0:]
        E.require(len(new) == 2, "one datagram per subscriber and round", {"n": len(new)})
        for (_, data, addr) in new:
            E.require(addr in model, "notification goes to a subscriber address")
            msgs = wire.parse_someip_all(data)
            E.require(len(msgs) == nev, "one message per event")
            for m in msgs:
                E.reach("h08c.sent")
                E.observe([r, list(addr), m["session"]])
                E.require(m["session"] == model[addr], "notification session ids count per destination", {"round": r})
                E.require(E.And(m["session"] >= 1, m["session"] <= 0xFFFF), "notification session id never 0")
                model[addr] = E.ite(model[addr] >= 0xFFFF, 1, model[addr] + 1)
    loop_clean(E, loop)


SCENARIOS = {"H08a": h08a, "H08b": h08b, "H08c": h08c}

"""C05 - discovery listeners see a truthful, strictly alternating service history."""
from __future__ import annotations

import itertools

from oracle import wire
from symx.vloop import Script

from .c07 import mk
from .common import MC, P, Q, TTL_FOREVER, RecTransport, loop_clean, new_loop

PROPERTY = "C05"
BUDGET_S = {"quick": 900, "thorough": 7200}
STUBS = [
    "event loop: VirtualLoop (symbolic integer ticks; events injected as the I/O batch of a solver-chosen iteration; consecutive events at one tick may share a batch)",
    "struct/bytes/enum lowering (TTL bytes of every Offer are symbolic)",
]
ASSUMPTIONS = [
    "histories of at most K events from the initial state over the stated alphabet; all datagrams arrive by unicast (channel separation: C07)",
    "one distinct listener object per registration (a listener registered under two overlapping filters is notified once per filter - outside the claim)",
    "find rounds and the announcer are not started (they do not touch the discovery state)",
    "the 'offered whenever a live matching offer arrived while registered' direction is asserted for offers that follow the registration in script order",
]
REACH = {"H05": ["h05.offered", "h05.stopped", "h05.end", "h05.reboot-order"]}
SOURCES = {"P": P, "Q": Q}
SERVICES = [(0x1000, 1), (0x1000, 2), (0x1001, 1)]  # (service id, instance id); major 1 minor 0
FILTERS = {"s1": (0x1000, 1, 1, 0), "s1w": (0x1000,), "s2": (0x1001,), "s1v": (0x1000, 1, 0xFF, 0xFFFFFFFF)}


def bounds(tier):
    if tier == "thorough":
        return {"H05": "K<=2 over the full alphabet, K=3 over the medium alphabet (two service instances, two sources, two filters) and K=4 over 6 core events (offer P / offer P with reboot evidence / offer Q / stop P / reboot-only P / watch) with a watch-all listener; TTL symbolic 1..0xFFFFFF (incl. infinite); gaps symbolic 0..2^40 ticks; delivery iteration and batching symbolic; observed when idle after the last event and at the end of time"}
    return {"H05": "K<=2 over the full alphabet (offer/stop-offer of 3 service instances from 2 sources, with and without reboot evidence, reboot-only message, connection loss, watch(3 filters)/unwatch, watch-all/unwatch-all; plus five histories with two filters for one service instance (watch, watch, unwatch, offer, stop); initial listener: none | watch-all | wildcard filter) and K=3 over the core alphabet (one service instance, two sources); TTL symbolic 1..0xFFFFFF; gaps 0..2^40 ticks; delivery iteration and batching symbolic; observed when idle after the last event and at the end of time"}


def _alphabet(nserv, filters, sources="PQ"):
    evs = []
    for a in sources:
        for s in range(nserv):
            for rb in (0, 1):
                evs.append(["offer", s, a, rb])
                evs.append(["stop", s, a, rb])
        evs.append(["rebootmsg", a])
    evs.append(["lost"])
    for f in filters:
        evs.append(["watch", f])
    evs.append(["watch_all"])
    evs.append(["unwatch"])  # resolved to the most recent active registration
    return evs


def _valid(seq, init):
    """prune histories that cannot carry what their kinds promise; canonical sources"""
    sent = set()
    active = [] if init == "none" else [init]
    first_src = None
    for ev in seq:
        if ev[0] in ("offer", "stop"):
            a, rb = ev[2], ev[3]
        elif ev[0] == "rebootmsg":
            a, rb = ev[1], 1
        else:
            a = None
        if a is not None:
            if first_src is None:
                first_src = a
                if a != "P":
                    return False
            if rb and a not in sent:
                return False
            sent.add(a)
        if ev[0] in ("watch", "watch_all"):
            active.append(ev[0])
        if ev[0] == "unwatch":
            if not active:
                return False
            active.pop()
    return True


def cases(tier, seed):
    out = []
    full = _alphabet(3, ["s1", "s1w", "s2"])
    core = _alphabet(1, ["s1w"])
    # medium: service instances (0x1000,1) and (0x1001,1) are indexes 0 and 2
    medium = [e for e in _alphabet(3, ["s1w", "s2"]) if not (e[0] in ("offer", "stop") and e[1] == 1)]
    core4 = [["offer", 0, "P", 0], ["offer", 0, "P", 1], ["offer", 0, "Q", 0], ["stop", 0, "P", 0], ["rebootmsg", "P"], ["watch", "s1w"]]
    plan = [(full, 1), (full, 2), (core, 3)] if tier == "quick" else [(full, 1), (full, 2), (medium, 3), (core4, 4)]
    seen = set()
    # two filters for the same service instance (differing in the versions they accept):
    # dropping one registration must not disturb the other
    off, stp = ["offer", 0, "P", 0], ["stop", 0, "P", 0]
    for combo in (
        (["watch", "s1"], ["watch", "s1v"], ["unwatch"], off),
        (["watch", "s1v"], ["watch", "s1"], ["unwatch"], off),
        (["watch", "s1"], ["watch", "s1v"], ["unwatch"], off, stp),
        (["watch", "s1"], ["watch", "s1v"], off, ["unwatch"], stp),
        (["watch", "s1w"], ["watch", "s1v"], ["unwatch"], off, ["offer", 0, "Q", 0]),
    ):
        out.append({"h": "H05", "init": "none", "evs": [list(e) for e in combo], "_w": len(combo)})
    for alpha, k in plan:
        for init in ("none", "all", "s1w"):
            if k >= 3 and tier == "thorough" and init != "all":
                continue  # the longest histories of the thorough tier start with a watch-all listener
            for combo in itertools.product(alpha, repeat=k):
                if not _valid(combo, init):
                    continue
                key = (init, repr(combo))
                if key in seen:
                    continue
                seen.add(key)
                out.append({"h": "H05", "init": init, "evs": [list(e) for e in combo], "_w": k})
    return out


def _matches(flt, svc):
    f = FILTERS[flt] if flt != "all" else None
    if f is None:
        return True
    if f[0] != svc[0]:
        return False
    if len(f) > 1 and f[1] != svc[1]:
        return False
    return True


def h05(E, M, case):
    loop = new_loop(E)
    cfg = M.config
    prot = M.sd.ServiceDiscoveryProtocol(MC)
    prot.transport = RecTransport(loop)
    disc = prot.discovery
    glog = []
    regs = []  # dict(name, listener, filter, reg_idx, unreg_idx)

    class _Listener(M.sd.ClientServiceListener):
        def __init__(self, name):
            self.name = name
            self.log = []

        def service_offered(self, service, source):
            self.log.append(("offered", (source, service.service_id, service.instance_id), loop.time(), len(glog)))
            glog.append((self.name, "offered", source, service.service_id, service.instance_id))

        def service_stopped(self, service, source):
            self.log.append(("stopped", (source, service.service_id, service.instance_id), loop.time(), len(glog)))
            glog.append((self.name, "stopped", source, service.service_id, service.instance_id))

    def register(flt, idx):
        lst = _Listener("L%d" % len(regs))
        r = {"l": lst, "f": flt, "reg": idx, "unreg": None}
        regs.append(r)
        if flt == "all":
            return lambda: disc.watch_all_services(lst)
        return lambda: disc.watch_service(cfg.Service(*FILTERS[flt]), lst)

    def unregister(idx):
        r = [x for x in regs if x["unreg"] is None][-1]
        r["unreg"] = idx
        if r["f"] == "all":
            return lambda: disc.stop_watch_all_services(r["l"])
        return lambda: disc.stop_watch_service(cfg.Service(*FILTERS[r["f"]]), r["l"])

    if case["init"] != "none":
        loop.call(register(case["init"], -1))
    sess = {"P": 0, "Q": 0}
    offers = {}  # (addr, sid, iid) -> (t, ttl, idx)
    t = 0
    sc = Script(loop, E)
    last_inject = [0]
    evs = case["evs"]
    for i, ev in enumerate(evs):
        t = t + E.int("dt%d" % i, 0, 2**40)
        kind = ev[0]
        # nothing shares a loop iteration with a connection loss that precedes it: the
        # transport is gone, later events happen after its (deferred) handling
        join = not (i > 0 and evs[i - 1][0] == "lost")
        if kind in ("offer", "stop", "rebootmsg"):
            a = ev[2] if kind != "rebootmsg" else ev[1]
            rb = ev[3] if kind != "rebootmsg" else 1
            addr = SOURCES[a]
            if rb:
                sess[a] = 1
                for k in [k for k in offers if k[0] == addr]:
                    del offers[k]
            else:
                sess[a] += 1
            entries = []
            if kind != "rebootmsg":
                sid, iid = SERVICES[ev[1]]
                ttl = E.int("ttl%d" % i, 1, 0xFFFFFF) if kind == "offer" else 0
                entries.append(wire.sd_entry_bytes(wire.T_OFFER, 0, 0, 0, 0, sid, iid, 1, ttl, 0))
                if kind == "offer":
                    offers[(addr, sid, iid)] = (t, ttl, i)
                else:
                    offers.pop((addr, sid, iid), None)
            data = mk(E, wire.sd_message(sess[a], 0xC0, entries, []))

            def cb(d=data, addr=addr, last=(i == len(evs) - 1)):
                if last:
                    last_inject[0] = len(glog)
                prot.datagram_received(d, addr, False)

            sc.at(t, cb, "ev%d" % i, joinable=join)
        elif kind == "lost":
            offers.clear()
            sc.at(t, lambda: prot.connection_lost(None), "ev%d" % i)
        elif kind == "watch":
            sc.at(t, register(ev[1], i), "ev%d" % i, joinable=join)
        elif kind == "watch_all":
            sc.at(t, register("all", i), "ev%d" % i, joinable=join)
        elif kind == "unwatch":
            sc.at(t, unregister(i), "ev%d" % i, joinable=join)
    sc.flush()
    loop.settle()

    def check_at(t_end, tag):
        def live(key):
            if key not in offers:
                return False
            t0, ttl, _ = offers[key]
            if t_end is None:
                return ttl == TTL_FOREVER
            return E.Or(ttl == TTL_FOREVER, t0 + ttl * 1000 > t_end)

        for r in regs:
            per = {}
            for (kind, key, tm, gi) in r["l"].log:
                per.setdefault(key, []).append(kind)
            E.observe([tag, r["f"], {repr(k): v for k, v in sorted(per.items())}])
            for key, seq in sorted(per.items()):
                if "offered" in seq:
                    E.reach("h05.offered")
                if "stopped" in seq:
                    E.reach("h05.stopped")
                ok = all(k == ("offered" if j % 2 == 0 else "stopped") for j, k in enumerate(seq))
                E.require(ok, "notifications per (listener, service instance, source) alternate offered, stopped, ... beginning with offered", {"at": tag, "listener": r["f"], "key": repr(key), "seq": seq, "history": evs})
                if r["unreg"] is None and seq[-1] == "offered":
                    E.require(live(key), "latest notification 'offered' only while the source's most recent offer is within its TTL and not withdrawn", {"at": tag, "listener": r["f"], "key": repr(key), "seq": seq, "history": evs})
            if r["unreg"] is None:
                for key, (t0, ttl, idx) in offers.items():
                    if idx > r["reg"] and _matches(r["f"], key[1:]):
                        seq = per.get(key, [])
                        E.require(E.Implies(live(key), bool(seq) and seq[-1] == "offered"), "a live matching offer that arrived while the listener was registered is reported offered", {"at": tag, "listener": r["f"], "key": repr(key), "seq": seq, "history": evs})

    # observation 1: the loop is idle right after the last event (every timer due up to
    # this tick has fired); observation 2: at the end of time (all finite TTLs ran out)
    check_at(t, "idle")
    tail_end = len(glog)
    loop.settle(2**62)
    loop_clean(E, loop)
    E.reach("h05.end")
    check_at(None, "end-of-time")
    # reboot ordering (checked when the reboot message is the last event of the history)
    last = evs[-1]
    if last[0] == "offer" and last[3]:
        addr = SOURCES[last[2]]
        sid, iid = SERVICES[last[1]]
        E.reach("h05.reboot-order")
        for r in regs:
            tail = [x for x in glog[last_inject[0] : tail_end] if x[0] == r["l"].name and x[2] == addr]
            offs = [j for j, x in enumerate(tail) if x[1] == "offered" and (x[3], x[4]) == (sid, iid)]
            if not offs:
                continue
            late = [x for x in tail[offs[-1] + 1 :] if x[1] == "stopped"]
            E.require(not late, "everything learnt from a rebooted sender is reported stopped before the offers of the same message are reported", {"listener": r["f"], "tail": [list(map(str, x)) for x in tail], "history": evs})


SCENARIOS = {"H05": h05}
